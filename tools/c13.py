"""C13 — parsers accept only closed well-formed sentences and fail only with ParseError.

Theory: coq/theories/Lang/{PSyntax,ParsePolish,ParsePolishProofs}.v (+ ParseStd*.v), Props/C13.v.
Per run: parse tables regenerated from /repo -> coq/gen/C13/Tables.v; the kernel decides the
side conditions (`table_ok`), instantiates the theorems on the regenerated tables (Obl.v) and
evaluates the model on every correspondence input; the real parsers run in tools/probe_parse.py.
"""
from __future__ import annotations

import itertools
import json
import random

import parselib as pl
from vlib import (Check, MachineryError, coqc, ensure_theory, gen_dir, probe_json, props_assumptions,
                  write_if_changed)

PID = 'C13'
PARSE_ERRORS = {'ParseError', 'UnboundVariableError', 'BoundVariableError', 'UndefinedPredicateError'}
DIGIT_LIMIT = 4300

NOTATIONS = {
    'polish': dict(table='polish_table', parse='parse_polish', history='run_history'),
    'standard': dict(table='standard_table', parse='parse_std', history='run_history_std'),
}

HEADER = pl.HEADER
STD_IMPORT = 'From PT Require Import Lang.ParseStd Lang.ParseStdProofs.\n'


def header(g_import=True) -> str:
    h = HEADER
    if have_std():
        h += STD_IMPORT
    if g_import:
        h += 'Require Import GC13.Tables.\n'
    return h


def have_std() -> bool:
    from vlib import COQ
    return (COQ / 'theories' / 'Lang' / 'ParseStd.v').exists()


# --------------------------------------------------------------------------
# generated tables and obligations

def emit_tables(chk: Check, tb: dict) -> bool:
    g = gen_dir(PID)
    try:
        pl.check_arities(tb)
        body = [HEADER]
        for notn in ('polish', 'standard'):
            body.append(pl.emit_ptable(f'{notn}_table', tb['parse'][notn]))
        if have_std():
            rev = tb['reversed']['standard']
            po, pc = rev['paren_open'], rev['paren_close']
            if not (isinstance(po, list) and isinstance(pc, list) and len(po) == 1 and len(pc) == 1):
                raise pl.Inexpressible(f'standard table reversed parens: {po!r} {pc!r}')
            body.append(STD_IMPORT)
            for nm, dp in (('std_opts', 'true'), ('std_opts_nodrop', 'false')):
                body.append(f'Definition {nm} : sopts := {{| drop_parens := {dp}; popen := {po[0]}%N; pclose := {pc[0]}%N |}}.')
            body.append('Definition parse_std C P i := parse_std_opts C std_opts P i.\n'
                        'Definition run_history_std C P l := run_history_std_opts C std_opts P l.\n'
                        'Definition parse_std_nd C P i := parse_std_opts C std_opts_nodrop P i.\n'
                        'Definition run_history_std_nd C P l := run_history_std_opts C std_opts_nodrop P l.\n')
    except pl.Inexpressible as e:
        chk.obligation('tables:expressible', False)
        chk.violation('tables:inexpressible', f'parse tables cannot be expressed in the model: {e}',
                      dict(kind='obligation', obligation='tables expressible', detail=str(e)), found_input=False)
        return False
    chk.obligation('tables:expressible', True)
    write_if_changed(g / 'Tables.v', '\n'.join(body))
    rc, out = coqc(g / 'Tables.v')
    if rc:
        raise MachineryError('generated Tables.v does not compile:\n' + out[-3000:])
    return True


def table_obligations(chk: Check, tb: dict) -> None:
    g = gen_dir(PID)
    notns = ['polish'] + (['standard'] if have_std() else [])
    exprs = [f'table_ok {n}_table' for n in notns]
    exprs += [f'filter (fun ce => negb (item_ok (snd ce))) {n}_table' for n in notns]
    ref = pl.Ref(tb['parse']['polish'])
    fm = pl.coq_str(ref.sym('Predicate', 0) + ref.sym('Constant', 0))
    frozen_expr = f'fst (parse_polish {pl.coq_cfg("polish_table", True, True)} [] {fm})'
    exprs.append(f'show_res ({frozen_expr})')
    ans = pl.eval_bools(PID, header(), exprs)
    ob = [header(), 'From PTProps Require Import C13.\n']
    for k, n in enumerate(notns):
        ok = ans[k].strip() == 'true'
        chk.obligation(f'{n}:table_ok', ok)
        if ok:
            ob.append(f'Lemma obl_{n}_table_ok : table_ok {n}_table = true.\nProof. vm_compute. reflexivity. Qed.\n')
            if n == 'polish':
                ob.append(POLISH_INSTANCES)
            else:
                ob.append(STD_INSTANCES)
        else:
            bad = ans[len(notns) + k]
            ob.append(f'Lemma obl_{n}_table_ok_refuted : table_ok {n}_table = false.\nProof. vm_compute. reflexivity. Qed.\n')
            # failing-input search: a string using the offending character
            found = search_bad_table_entry(chk, n, tb, bad)
            if not found:
                chk.violation(f'{n}:table_ok', f'{n} parse table violates index/digit bounds: {bad[:200]}',
                              dict(kind='obligation', obligation=f'table_ok {n}_table', witness=bad[:500]),
                              found_input=False)
    if 'AttributeError' in ans[-1]:
        ob.append(f'Lemma C13_polish_frozen_refuted : {frozen_expr} = OErr OEAttr.\n'
                  'Proof. vm_compute. reflexivity. Qed.\n')
    write_if_changed(g / 'Obl.v', '\n'.join(ob))
    rc, out = coqc(g / 'Obl.v')
    if rc:
        raise MachineryError('generated Obl.v does not compile:\n' + out[-3000:])


POLISH_INSTANCES = '''
Definition polish_cfg (auto : bool) := {| tab := polish_table; auto_preds := auto; frozen := false |}.
Theorem C13_polish_never_other : forall auto P i k, fst (parse_polish (polish_cfg auto) P i) <> OErr k.
Proof. intros. apply C13_parse_never_other; [exact obl_polish_table_ok | left; reflexivity]. Qed.
Theorem C13_polish_wf : forall auto P i s P', store_ok P = true ->
  parse_polish (polish_cfg auto) P i = (OK s, P') ->
  wf_items s = true /\\ closed s = true /\\ nonvacuous s = true /\\ norebind s = true /\\ arity_ok P' s = true.
Proof. intros auto P i s P'. exact (C13_parse_wf (polish_cfg auto) obl_polish_table_ok P i s P'). Qed.
'''

STD_INSTANCES = '''
Definition std_cfg (auto : bool) := {| tab := standard_table; auto_preds := auto; frozen := false |}.
Theorem C13_std_never_other : forall auto O P i k, fst (parse_std_opts (std_cfg auto) O P i) <> OErr k.
Proof. intros. apply C13_parse_std_never_other; [exact obl_standard_table_ok | left; reflexivity]. Qed.
Theorem C13_std_wf : forall auto O P i s P', store_ok P = true ->
  parse_std_opts (std_cfg auto) O P i = (OK s, P') ->
  wf_items s = true /\\ closed s = true /\\ nonvacuous s = true /\\ norebind s = true /\\ arity_ok P' s = true.
Proof. intros auto O P i s P'. exact (C13_parse_std_wf (std_cfg auto) obl_standard_table_ok O P i s P'). Qed.
'''


def search_bad_table_entry(chk, notn, tb, bad) -> bool:
    """A table entry with an out-of-range index / digit value: parse the character in a context
    where the parser accepts it and see whether a non-ParseError escapes."""
    found = False
    ref = pl.Ref(tb['parse'][notn])
    for chars, kind, value in tb['parse'][notn]:
        if len(chars) != 1 or not isinstance(value, int):
            continue
        lim = dict(Variable=3, Constant=3, Predicate=3, Atomic=4, digit=9).get(kind)
        if lim is None or value <= lim:
            continue
        ch = chr(chars[0])
        cands = {'Atomic': [ch], 'Constant': [ref.sym('Predicate', 0) + ch],
                 'Variable': [ref.sym('Quantifier', 'Existential') + ch + ref.sym('Predicate', 0) + ch],
                 'Predicate': [ch + ref.sym('Constant', 0)],
                 'digit': [ref.sym('Atomic', 0) + ch]}[kind]
        job = dict(notation=notn, inputs=cands, mode='fresh')
        real = probe_json('probe_parse.py', ['parse'], stdin=json.dumps([job]))[0]['results']
        for i, r in zip(cands, real):
            if r.startswith('E ') and r[2:] not in PARSE_ERRORS:
                chk.violation(f'{notn}:table-entry:{kind}', f'{notn} parser raises {r[2:]} on {i!r} (table maps '
                              f'{ch!r} to {kind} {value}, outside the constructible range)',
                              dict(kind='parse', job=dict(job, inputs=[i]), expect='parse-error-or-ok'))
                found = True
            elif kind == 'digit':
                chk.violation(f'{notn}:table-entry:digit', f'{notn} table gives digit {ch!r} the value {value}',
                              dict(kind='parse', job=dict(job, inputs=[i]), expect_model=None, observed=r))
                found = True
    return found


# --------------------------------------------------------------------------
# input generation

SUB12 = {'polish': ['a', 'N', 'K', 'F', 'I', 'm', 'x', 'y', 'S', '1', ' ', 'é'],
         'standard': ['A', '~', '&', 'F', '=', 'a', 'x', '(', ')', 'X', '1', ' ']}

FOREIGN = ['é', '∧', '¬', ':', '_', '\t', '\n', ' ', '\U0001d538', '\x00', '[', 'q', 'Z', '-', '١', '{', '}', '{0}', '%s', '\\']

STORES = [
    dict(preds=[], auto=True),
    dict(preds=[[0, 0, 1]], auto=False),
    dict(preds=[[0, 0, 2], [1, 0, 1]], auto=True),
]


def exhaustive(notn: str, maxlen: int):
    al = SUB12[notn]
    for n in range(0, maxlen + 1):
        for t in itertools.product(al, repeat=n):
            yield ''.join(t)


def mutate(rng: random.Random, s: str, alphabet: list[str]) -> str:
    n = rng.choice([1, 1, 1, 2, 3])
    for _ in range(n):
        op = rng.random()
        pos = rng.randrange(len(s) + 1)
        if op < 0.3 and s:
            pos = min(pos, len(s) - 1)
            s = s[:pos] + s[pos + 1:]
        elif op < 0.55:
            s = s[:pos] + rng.choice(alphabet) + s[pos:]
        elif op < 0.75 and s:
            pos = min(pos, len(s) - 1)
            s = s[:pos] + rng.choice(alphabet) + s[pos + 1:]
        elif op < 0.85 and len(s) > 1:
            pos = min(pos, len(s) - 2)
            s = s[:pos] + s[pos + 1] + s[pos] + s[pos + 2:]
        elif op < 0.95:
            s = s[:pos] + ' ' * rng.randint(1, 3) + s[pos:]
        else:
            s = s[:pos] + rng.choice(FOREIGN) + s[pos:]
    return s


def render(notn: str, ref: pl.Ref, j, rng=None) -> str:
    if notn == 'polish':
        return ref.polish(j)
    return pl.std_render(ref, j, rng)


def gen_inputs(rng: random.Random, notn: str, ref: pl.Ref, n_random: int, n_mut: int):
    alphabet = ref.chars
    out = []
    for _ in range(n_random):
        L = rng.choice([1, 2, 3, 5, 8, 12, 20, 30])
        al = alphabet + (FOREIGN if rng.random() < 0.3 else [])
        out.append(('random', ''.join(rng.choice(al) for _ in range(L))))
    # every foreign character at the start, inside and at the end of a well-formed sentence, and alone
    g0 = pl.SentGen(random.Random(7))
    for j0 in (g0.sent(1), g0.sent(2), g0.sent(3)):
        base = render(notn, ref, j0)
        for ch in FOREIGN:
            for st in (ch, ch + base, base + ch, base[:1] + ch + base[1:], base[:-1] + ch + base[-1:]):
                out.append(('foreign', st))
    for _ in range(n_mut):
        g = pl.SentGen(rng)
        j = g.sent(rng.choice([1, 2, 3, 4, 6]))
        s = render(notn, ref, j, rng)
        if rng.random() < 0.35:
            out.append(('valid', s))
        else:
            out.append(('mutated', mutate(rng, s, alphabet)))
    return out


def scope_matrix(notn: str, ref: pl.Ref):
    """Quantifier-scope near misses, systematically: two quantifiers (siblings under a binary operator, or
    nested, or one beside a free-standing body) over the variables x / y, with bodies that do or do not
    mention each variable.  Well-formed, vacuous, rebinding and unbound combinations all occur."""
    x, y, m = ['v', 0, 0], ['v', 1, 0], ['c', 0, 0]
    F = [0, 0, 1]
    bodies = [['P', F, [x]], ['P', F, [y]], ['P', F, [m]], ['A', 0, 0],
              ['B', 'Conjunction', ['P', F, [x]], ['P', F, [y]]]]
    out = []
    for q1 in ('Universal', 'Existential'):
        for v1 in (x, y):
            for b1 in bodies:
                for v2 in (x, y):
                    for b2 in bodies:
                        A1 = ['Q', q1, [v1[1], v1[2]], b1]
                        A2 = ['Q', 'Universal', [v2[1], v2[2]], b2]
                        out.append(['B', 'Conjunction', A1, A2])                     # siblings
                        out.append(['B', 'Disjunction', A1, b2])                     # body after a closed scope
                        out.append(['Q', q1, [v1[1], v1[2]], ['B', 'Conditional', b1, A2]])   # nested beside a body
                    out.append(['Q', q1, [v1[1], v1[2]], ['Q', 'Existential', [v2[1], v2[2]], b1]])   # directly nested
    seen, res = set(), []
    for j in out:
        st = render(notn, ref, j)
        if st not in seen:
            seen.add(st)
            res.append(st)
    return res


def gen_histories(rng: random.Random, notn: str, ref: pl.Ref, n: int):
    hs = []
    for _ in range(n):
        k = rng.randint(2, 6)
        g = pl.SentGen(rng)          # one arity assignment per history ...
        seq = []
        for _ in range(k):
            if rng.random() < 0.3:
                g = pl.SentGen(rng)  # ... sometimes a conflicting one
            j = g.sent(rng.choice([0, 1, 2, 3]))
            s = render(notn, ref, j, rng)
            if rng.random() < 0.4:
                s = mutate(rng, s, ref.chars)
            seq.append(s)
        st = rng.choice(STORES)
        hs.append(dict(notation=notn, preds=st['preds'], auto=st['auto'], inputs=seq, mode='history'))
    return hs


# --------------------------------------------------------------------------
# running both sides

FROZEN_IS_NOAUTO = {}


def frozen_behaviour(notn: str, ref) -> bool:
    """Schematic probe of one finite behaviour: does a frozen store with auto_preds behave like auto_preds=False
    (UndefinedPredicateError, e.g. after fixes/parser-frozen-store.diff) instead of raising AttributeError?"""
    if notn not in FROZEN_IS_NOAUTO:
        i = ref.sym('Predicate', 1)      # the symbol alone: the whole input is consumed before the decision
        r = probe_json('probe_parse.py', ['parse'], stdin=json.dumps(
            [dict(notation=notn, preds=[[0, 0, 1]], auto=True, frozen=True, mode='fresh', inputs=[i])]))[0]['results'][0]
        FROZEN_IS_NOAUTO[notn] = (r == 'E UndefinedPredicateError')
    return FROZEN_IS_NOAUTO[notn]


def model_exprs(jobs: list[dict]) -> list[str]:
    ex = []
    for job in jobs:
        nt = NOTATIONS[job['notation']]
        if job.get('frozen') and FROZEN_IS_NOAUTO.get(job['notation']):
            job = dict(job, frozen=False, auto=False)
        if (job.get('opts') or {}).get('drop_parens') is False:
            nt = dict(nt, parse=nt['parse'] + '_nd', history=nt['history'] + '_nd')
        cfg = pl.coq_cfg(nt['table'], job.get('auto', True), job.get('frozen', False))
        P = pl.coq_store(job.get('preds', []))
        ins = job['inputs']
        if job.get('rep'):
            pre, unit, cnt, suf = job['rep']
            lit = (f'({pl.coq_str(pre)} ++ List.concat (List.repeat {pl.coq_str(unit)} {cnt}) ++ {pl.coq_str(suf)})')
            lst = f'[{lit}]'
        else:
            lst = '[' + '; '.join(pl.coq_str(i) for i in ins) + ']' if ins else '(@nil str)'
        if job.get('mode') == 'fresh':
            ex.append(f'map (fun i => show_parse ({nt["parse"]} {cfg} {P} i)) {lst}')
        else:
            ex.append(f'show_history ({nt["history"]} {cfg} {P} {lst})')
    return ex


def run_both(jobs: list[dict], name: str, shard=20):
    real = probe_json('probe_parse.py', ['parse'], stdin=json.dumps(jobs), timeout=1800)
    model = pl.eval_string_lists(PID, header(), model_exprs(jobs), name=name, shard=shard)
    return real, model


def kind_of(res: str) -> str:
    return 'OK' if res.startswith('OK ') else res[2:] if res.startswith('E ') else res


def max_digit_run(s: str) -> int:
    best = cur = 0
    for c in s:
        if c.isdigit() and c.isascii():
            cur += 1
            best = max(best, cur)
        elif c != ' ':
            cur = 0
    return best


def classify(chk: Check, job: dict, idx, inp, real_res, model_res, real_store, model_store, category):
    """Compare one outcome.  real_res/model_res: 'OK <ser>' | 'E <Type>'."""
    notn = job['notation']
    rk, mk = kind_of(real_res), kind_of(model_res)
    single = dict(job, inputs=[inp] if idx is None else job['inputs'], mode=job.get('mode', 'history'))
    shown = inp if len(inp) <= 200 else inp[:80] + f'...({len(inp)} chars)'
    if rk != 'OK' and rk not in PARSE_ERRORS:
        # the property's letter: never an exception other than ParseError
        if rk == 'ValueError' and (max_digit_run(inp) > DIGIT_LIMIT or (job.get('rep') and job['rep'][2] > DIGIT_LIMIT)):
            key = 'cpython-int-digit-limit'
        elif rk == 'AttributeError' and job.get('frozen'):
            key = 'frozen-store-auto-declare'
        else:
            key = f'{notn}:raises:{rk}'
        chk.violation(key, f'{notn} parser raises {rk} (not ParseError) on {shown!r}',
                      dict(kind='parse', job=single, index=idx, expect='parse-error-or-ok', observed=real_res,
                           model=model_res))
        if key in ('cpython-int-digit-limit',):
            return
        if mk == rk:
            return          # the model predicts exactly this escape (e.g. the frozen store)
    if real_res != model_res:
        if rk == 'ParseError' and mk == 'OK' and (max_digit_run(inp) > DIGIT_LIMIT or (job.get('rep') and job['rep'][2] > DIGIT_LIMIT and not job.get('deep'))):
            # int() limit reported as ParseError (e.g. after fixes/parser-subscript-digit-limit.diff): property holds
            chk.count('boundary', 'cpython-int-digit-limit(parse-error, property holds)')
            return
        if rk == 'ParseError' and mk == 'OK' and job.get('deep'):
            # RecursionError masked by __exit__: still a ParseError, C13's letter holds (see C12)
            chk.count('boundary', 'recursion-depth-masked(parse-error, property holds)')
            return
        chk.violation(f'{notn}:model-mismatch:{mk}->{rk}',
                      f'{notn} parser on {shown!r} ({category}): implementation {real_res[:120]!r}, model {model_res[:120]!r}',
                      dict(kind='parse', job=single, index=idx, expect_model=model_res, observed=real_res))
        return
    if real_store is not None and real_store != model_store:
        chk.violation(f'{notn}:store-mismatch',
                      f'{notn} parser store after {shown!r}: implementation {real_store!r}, model {model_store!r}',
                      dict(kind='parse', job=single, index=idx, expect_store=model_store, observed_store=real_store))


def run(args) -> int:
    from vlib import ProbeError
    chk = Check(PID, args.tier, args.seed)
    try:
        return _run(chk, args)
    except ProbeError as e:
        # the implementation cannot even be imported / driven: a behavioural regression, not a tooling fault
        chk.violation('implementation-unusable', 'the probe running the real parser/writer crashed: ' + str(e)[-400:].replace('\n', ' | '),
                      dict(kind='probe', detail=str(e)[-3000:]), found_input=False)
        return chk.finish()


def _run(chk, args) -> int:
    thorough = args.tier == 'thorough'
    chk.rule = ('model outcome (sentence serialised structurally, or exception type) and predicate store after the '
                'parse must equal the implementation\'s; distinct = distinct (notation, store, input) with a '
                'non-trivial input (length >= 2)')
    ensure_theory()
    tb = pl.tables()
    if not emit_tables(chk, tb):
        return chk.finish()
    table_obligations(chk, tb)
    chk.assumptions = props_assumptions(PID)
    chk.theorems = THEOREMS
    rng = random.Random(args.seed)
    notns = ['polish'] + (['standard'] if have_std() else [])
    for notn in notns:
        ref = pl.Ref(tb['parse'][notn])
        # ---- exhaustive short strings, fresh parser each, three store configurations
        maxlen = 4 if thorough else 3
        strings = list(exhaustive(notn, maxlen))
        jobs = []
        CH = 2000
        for st in STORES:
            for i in range(0, len(strings), CH):
                jobs.append(dict(notation=notn, preds=st['preds'], auto=st['auto'], mode='fresh',
                                 inputs=strings[i:i + CH]))
        compare_fresh(chk, jobs, f'Exh_{notn}_', 'exhaustive', shard=1)
        chk.count('exhaustive', f'{notn}:len<={maxlen}', len(strings) * len(STORES))
        # ---- random and grammar-mutated
        nr, nm = (20000, 40000) if thorough else (1500, 3000)
        gen = gen_inputs(rng, notn, ref, nr, nm)
        for cat, _ in gen:
            chk.count('category', f'{notn}:{cat}')
        jobs = []
        CH = 500
        for i in range(0, len(gen), CH):
            st = STORES[(i // CH) % len(STORES)]
            jobs.append(dict(notation=notn, preds=st['preds'], auto=st['auto'], mode='fresh',
                             inputs=[s for _, s in gen[i:i + CH]], cats=[c for c, _ in gen[i:i + CH]]))
        compare_fresh(chk, jobs, f'Rnd_{notn}_', 'random', shard=1)
        # ---- quantifier scope matrix (closed / vacuous / rebinding / unbound, siblings and nested)
        sm = scope_matrix(notn, ref)
        chk.count('category', f'{notn}:scope-matrix', len(sm))
        compare_fresh(chk, [dict(notation=notn, preds=[[0, 0, 1]], auto=a_, mode='fresh', inputs=sm) for a_ in (True, False)],
                      f'Scope_{notn}_', 'scope-matrix', shard=1)
        # ---- whitespace insensitivity: parse(i) = parse(i without whitespace characters)
        ws = {chr(c[0]) for c, k, v in tb['parse'][notn] if k == 'whitespace' and len(c) == 1}
        wsi = [s for _, s in gen if any(ch in ws for ch in s)][:4000 if thorough else 600]
        whitespace_cases(chk, notn, wsi, ws)
        # ---- histories on one instance
        hs = gen_histories(rng, notn, ref, 3000 if thorough else 300)
        compare_histories(chk, hs, f'Hist_{notn}_')
        # ---- frozen store (the model predicts the AttributeError; parse_frozen_refuted)
        chk.notes[f'frozen_store_behaves_as_no_auto:{notn}'] = frozen_behaviour(notn, ref)
        fj = [dict(notation=notn, preds=[[0, 0, 1]], auto=True, frozen=True, mode='fresh',
                   inputs=[render(notn, ref, ['P', [1, 0, 1], [['c', 0, 0]]]),
                           render(notn, ref, ['P', [0, 0, 1], [['c', 0, 0]]]),
                           render(notn, ref, ['P', [1, 0, 1], [['c', 0, 0]]]) + ' ' + ref.sym('Variable', 0)]
                          + ([] if notn == 'polish' else
                             # an undeclared predicate written infix, at the end of the input and followed by more input
                             [ref.param(['c', 0, 0]) + ref.coords('Predicate', 1, 0) + ref.param(['c', 1, 0]),
                              ref.sym('Operator', 'Negation') + ref.param(['c', 0, 0]) + ref.coords('Predicate', 1, 0) + ref.param(['c', 1, 0]),
                              ref.param(['c', 0, 0]) + ' ' + ref.coords('Predicate', 1, 0) + ' ' + ref.param(['c', 1, 0]) + ' ',
                              ref.param(['c', 0, 0]) + ref.coords('Predicate', 0, 0) + ref.param(['c', 1, 0]),
                              ref.param(['c', 0, 0]) + ref.coords('Predicate', 1, 0) + ref.param(['c', 1, 0]) + ' '
                              + ref.sym('Operator', 'Conjunction') + ' ' + ref.coords('Atomic', 0, 0)]))]
        compare_fresh(chk, fj, f'Frozen_{notn}_', 'frozen-store', shard=1)
        # a store frozen from a live Predicates object, which then gains predicates: the frozen store (and a parser over
        # it) still declares only what it declared when it was frozen
        later = [render(notn, ref, ['P', [1, 0, 2], [['c', 0, 0], ['c', 1, 0]]]), render(notn, ref, ['P', [0, 0, 1], [['c', 0, 0]]]),
                 render(notn, ref, ['P', [2, 0, 1], [['c', 0, 0]]])]
        fj2 = [dict(notation=notn, preds=[[0, 0, 1]], auto=False, frozen=True, mode='fresh', inputs=later,
                    frozen_from_store=[[1, 0, 2], [2, 0, 1]], frozen_how=how) for how in ('class', 'method')]
        compare_fresh(chk, fj2, f'FrozenLive_{notn}_', 'frozen-store', shard=1)
        # ---- CPython boundary cases
        boundary(chk, notn, ref, thorough)
    shrink_findings(chk)
    chk.checker_cmd = ('coqc gen/C13/{Tables,Status,Obl,Exh_*,Rnd_*,Hist_*}.v against '
                       'coq/theories/Lang/{PSyntax,ParsePolish,ParsePolishProofs,PShow}.v, Props/C13.v')
    chk.trusted.append('tools/probe_parse.py (runs the real parsers; structural serialisation of Sentence objects)')
    chk.trusted.append('coq/theories/Lang/ParsePolish.v as a faithful model of ParseContext/DefaultParser/PolishParser '
                       '(tied by the correspondence run)')
    chk.notes['explanation'] = EXPLANATION
    return chk.finish()


def key_of(notn: str, real_res: str, model_res: str):
    rk, mk = kind_of(real_res), kind_of(model_res)
    if rk != 'OK' and rk not in PARSE_ERRORS and rk != mk:
        return f'{notn}:raises:{rk}'
    if real_res != model_res:
        return f'{notn}:model-mismatch:{mk}->{rk}'
    return None


def shrink_findings(chk: Check, max_findings=3, max_rounds=30):
    """Shrink the witness string of single-input findings by deleting characters while the same
    stable key is still produced (real parser + model re-evaluated on every candidate)."""
    done = 0
    for f in chk.findings:
        rep = f['replay']
        job = rep.get('job') or {}
        if rep.get('kind') != 'parse' or job.get('mode') != 'fresh' or job.get('rep') or len(job.get('inputs', [])) != 1:
            continue
        if not (':model-mismatch:' in f['key'] or ':raises:' in f['key']):
            continue
        if (chk.known.get((chk.pid, f['key'])) or {}).get('status') == 'open':
            continue
        inp = job['inputs'][0]
        if not (8 < len(inp) <= 300) or done >= max_findings:
            continue
        done += 1
        base = {k: v for k, v in job.items() if k not in ('cats', 'deep')}
        cur = inp
        for _ in range(max_rounds):
            cands = []
            n = len(cur)
            for width in sorted({max(1, n // 2), max(1, n // 4), 2, 1}, reverse=True):
                for i in range(0, n - width + 1, max(1, width // 2) if width > 1 else 1):
                    c = cur[:i] + cur[i + width:]
                    if c not in cands and c != cur:
                        cands.append(c)
            cands = cands[:160]
            if not cands:
                break
            j = dict(base, inputs=cands)
            real, model = run_both([j], 'Shrink_', shard=1)
            hit = None
            for c, r, m in zip(cands, real[0]['results'], model[0]):
                if key_of(job['notation'], r, m.partition(' # ')[0]) == f['key']:
                    hit = (c, r, m.partition(' # ')[0])
                    break
            if hit is None:
                break
            cur = hit[0]
            rep['job'] = dict(base, inputs=[cur])
            rep['observed'] = hit[1]
            if 'expect_model' in rep:
                rep['expect_model'] = hit[2]
            rep['model'] = hit[2]
            f['what'] = (f"{job['notation']} parser on {cur!r} (shrunk from {len(inp)} chars): implementation "
                         f"{hit[1][:120]!r}, model {hit[2][:120]!r}")
            if len(cur) <= 3:
                break


def compare_fresh(chk: Check, jobs: list[dict], name: str, category: str, shard=1):
    if not jobs:
        return
    pj = [{k: v for k, v in j.items() if k != 'cats'} for j in jobs]
    real, model = run_both(pj, name, shard=shard)
    for job, rr, mm in zip(jobs, real, model):
        ins = job['inputs'] if not job.get('rep') else ['<rep>']
        if len(mm) != len(ins):
            raise MachineryError(f'{name}: model gave {len(mm)} answers for {len(ins)} inputs')
        for k, inp in enumerate(ins):
            m_res, _, m_store = mm[k].partition(' # ')
            r_res, r_store = rr['results'][k], rr['stores'][k]
            cat = job['cats'][k] if 'cats' in job else category
            shown = inp if len(inp) <= 60 else inp[:60] + '...'
            chk.case([job['notation'], job.get('preds'), job.get('auto'), job.get('frozen'), inp],
                     nontrivial=len(inp) >= 2,
                     sample=dict(notation=job['notation'], input=shown, outcome=r_res[:80], store=r_store) if k % 97 == 5 else None)
            chk.count('outcome', f"{job['notation']}:{kind_of(r_res)}")
            sub = dict(job, inputs=[inp])
            sub.pop('cats', None)
            classify(chk, sub, None, inp, r_res, m_res, r_store, m_store, cat)


def whitespace_cases(chk: Check, notn: str, inputs: list[str], ws: set):
    if not inputs:
        return
    pairs = []
    for i in inputs:
        pairs += [i, ''.join(ch for ch in i if ch not in ws)]
    jobs = [dict(notation=notn, preds=[], auto=True, mode='fresh', inputs=pairs[k:k + 600]) for k in range(0, len(pairs), 600)]
    real, model = run_both(jobs, f'Ws_{notn}_', shard=1)
    for job, rr, mm in zip(jobs, real, model):
        ins = job['inputs']
        for k in range(0, len(ins), 2):
            chk.case(['ws', notn, ins[k]], nontrivial=True)
            chk.count('whitespace_pairs', notn)
            a = (rr['results'][k], rr['stores'][k])
            b = (rr['results'][k + 1], rr['stores'][k + 1])
            if a != b:
                chk.violation(f'{notn}:whitespace-sensitive', f'{notn} parser: {ins[k]!r} -> {a[0][:100]!r} but without '
                              f'whitespace {ins[k + 1]!r} -> {b[0][:100]!r}',
                              dict(kind='parse', job=dict(job, inputs=[ins[k]]), index=None, expect_model=b[0], observed=a[0]))
            for q in (k, k + 1):
                m_res, _, m_store = mm[q].partition(' # ')
                classify(chk, dict(job, inputs=[ins[q]]), None, ins[q], rr['results'][q], m_res, rr['stores'][q], m_store, 'whitespace')


def compare_histories(chk: Check, hs: list[dict], name: str):
    real, model = run_both(hs, name, shard=100)
    for job, rr, mm in zip(hs, real, model):
        chk.case(['history', job['notation'], job['preds'], job['auto'], job['inputs']], nontrivial=True)
        chk.count('history_len', str(len(job['inputs'])))
        if len(mm) != len(job['inputs']) + 1:
            raise MachineryError(f'{name}: model history length {len(mm)}')
        for k, inp in enumerate(job['inputs']):
            if rr['results'][k] != mm[k]:
                # same instance, earlier parses included: history dependence or model mismatch
                pre = dict(job, inputs=job['inputs'][:k + 1])
                classify(chk, pre, k, inp, rr['results'][k], mm[k], None, None, 'history')
                break
        else:
            if rr['store'] != mm[-1]:
                chk.violation(f"{job['notation']}:store-mismatch",
                              f"{job['notation']} parser store after history {job['inputs']!r}: "
                              f"implementation {rr['store']!r}, model {mm[-1]!r}",
                              dict(kind='parse', job=job, index=len(job['inputs']) - 1, expect_store=mm[-1],
                                   observed_store=rr['store']))


def boundary(chk: Check, notn: str, ref: pl.Ref, thorough: bool):
    atom = ref.sym('Atomic', 0)
    neg = ref.sym('Operator', 'Negation')
    one = ref.sym('digit', 1)
    jobs = []
    for n in (4000, DIGIT_LIMIT, DIGIT_LIMIT + 1):
        jobs.append(dict(notation=notn, preds=[], auto=True, mode='fresh', inputs=[], rep=[atom, one, n, '']))
    # after the rejected over-long subscript (same interpreter, fresh parsers and one reused parser): ordinary
    # subscripted symbols still parse - nothing of the failed parse may survive
    after = [atom + one, atom + one * 3, neg + atom + one * 2, atom]
    jobs.append(dict(notation=notn, preds=[], auto=True, mode='fresh', inputs=after, after_overlong=True))
    jobs.append(dict(notation=notn, preds=[], auto=True, mode='history', inputs=after, after_overlong=True))
    for d in (100, 200, 500):
        jobs.append(dict(notation=notn, preds=[], auto=True, mode='fresh', inputs=[], rep=['', neg, d, atom], deep=True))
    real, model = run_both([{k: v for k, v in j.items() if k not in ('deep', 'after_overlong')} for j in jobs], f'Bound_{notn}_', shard=1)
    for job, rr, mm in zip(jobs, real, model):
        if job.get('after_overlong'):
            for k_, inp in enumerate(job['inputs']):
                m_res = mm[k_].partition(' # ')[0]
                chk.case(['after-overlong', notn, job['mode'], inp], nontrivial=True)
                chk.count('boundary', f'{notn}:after-overlong:{job["mode"]}')
                if rr['results'][k_] != m_res:
                    chk.violation(f'{notn}:state-survives-failed-parse',
                                  f'{notn} parser on {inp!r} after an over-long subscript was rejected in the same interpreter '
                                  f'({job["mode"]} parser): implementation {rr["results"][k_]!r}, model {m_res!r}',
                                  dict(kind='parse', notation=notn, preds=[], auto=True, mode=job['mode'],
                                       inputs=[atom + one * (DIGIT_LIMIT + 1)] + job['inputs'], index=k_ + 1, expect=m_res))
            continue
        pre, unit, cnt, suf = job['rep']
        inp = pre + unit * cnt + suf
        m_res, _, m_store = mm[0].partition(' # ')
        chk.case(['boundary', notn, job['rep']], nontrivial=True)
        chk.count('boundary', f'{notn}:{unit!r}x{cnt}:{kind_of(rr["results"][0])}')
        classify(chk, job, None, inp, rr['results'][0], m_res, rr['stores'][0], m_store, 'boundary')


THEOREMS = ['C13_parse_never_other', 'C13_parse_terminates', 'C13_parse_wf', 'C13_parse_pure',
            'C13_parse_history_independent', 'C13_parse_store_grows', 'C13_parse_noauto_store',
            'C13_parse_frozen_refuted', 'C13_parse_std_never_other', 'C13_parse_std_wf', 'C13_parse_std_pure',
            'gen: C13_polish_never_other', 'gen: C13_polish_wf', 'gen: C13_polish_frozen_refuted',
            'gen: C13_std_never_other', 'gen: C13_std_wf']

EXPLANATION = (
    'obligations = expressibility of the regenerated parse tables in the model\'s item language (operator arities, '
    'quantifiers, system predicates, LexType.maxi read from /repo) + table_ok per notation (indexes within maxi, '
    'digit values < 10), kernel-decided; the theorems of Props/C13.v are instantiated on the regenerated tables in '
    'gen/C13/Obl.v. Correspondence: every input goes to the real parser and to the Coq model (vm_compute); outcome '
    '(structural serialisation or exception type) and the predicate store afterwards must agree; histories run on '
    'one parser instance against run_history.')


def replay(path: str) -> int:
    rep = json.load(open(path))
    if rep.get('kind') != 'parse':
        print(f"replay: {rep.get('kind')} obligation {rep.get('obligation')}: re-run ./check C13")
        chk_rc = run(type('A', (), dict(tier='quick', seed=rep.get('seed', 0)))())
        return chk_rc
    job = rep['job']
    real = probe_json('probe_parse.py', ['parse'], stdin=json.dumps([{k: v for k, v in job.items() if k not in ('cats', 'deep')}]))[0]
    idx = rep.get('index')
    res = real['results'][idx if idx is not None else 0]
    store = real.get('store') if 'store' in real else real['stores'][0]
    bad = False
    if rep.get('expect') == 'parse-error-or-ok':
        bad = res.startswith('E ') and res[2:] not in PARSE_ERRORS
    elif 'expect_model' in rep and rep['expect_model'] is not None:
        bad = res != rep['expect_model']
    elif 'expect_store' in rep:
        bad = store != rep['expect_store']
    print(f'replay: {job["notation"]} -> {res[:200]} store={store}')
    if bad:
        print(f'VIOLATION property=C13 replay={path}')
        return 1
    return 0
