"""Runs in the implementation's interpreter: the titles of the package's example arguments."""
import json, sys
from pytableaux import examples
json.dump(dict(titles=list(examples.arguments)), sys.stdout)
