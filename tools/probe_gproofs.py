"""Runs in the implementation's interpreter.  Builds real tableaux step by step
through the public API and exports each proof as a certificate tree for the
general Coq checker (Tab/FullTab.v: gtree / gstep).

stdin: JSON {jobs: [{logic, premises: [polish str]|[stree], conclusion, opts, id, models: bool}]}
A sentence is either a Polish-notation string (parsed with the package's parser and the
example predicates) or an stree as in probe_proofs.py.
stdout: JSON {results: [...]}"""
from __future__ import annotations

import json
import sys

import probe_rules as pr


def reset_serial():
    "Hook: restart the node-hash counter so that a tableau's tie-break order does not depend on earlier jobs in this process."
    try:
        from pytableaux.proof import common
        common._verif_serial[0] = 0
    except Exception:
        pass

FRAME = {'Reflexive', 'Transitive', 'Symmetric', 'Serial'}


def main():
    registry = pr.setup()
    from pytableaux import examples
    from pytableaux.lang import (Argument, Atomic, Constant, Operated, Operator, Parser, Predicate, Predicated,
                                 Predicates, Quantified, Quantifier, Variable)
    from pytableaux.proof import Tableau

    ATOM_W = Atomic.TYPE.maxi + 1
    CONST_W = Constant.TYPE.maxi + 1
    VAR_W = Variable.TYPE.maxi + 1
    PRED_W = Predicate.TYPE.maxi + 1
    preds = Predicates(Predicate.gen(3))
    parser = Parser('polish', preds, auto_preds=True) if 'auto_preds' in getattr(Parser, '__init__', object).__code__.co_varnames else Parser('polish', preds)

    def build(t):
        if isinstance(t, str):
            return parser(t)
        k = t[0]
        if k == 'A':
            return Atomic(t[1] % ATOM_W, t[1] // ATOM_W)
        if k in ('U', 'M'):
            return Operator[t[1]](build(t[2]))
        if k == 'B':
            return Operator[t[1]](build(t[2]), build(t[3]))
        if k == 'Q':
            return Quantified(Quantifier[t[1]], Variable(t[2] % VAR_W, t[2] // VAR_W), build(t[3]))
        if k == 'P':
            ps = tuple(Constant(p[1], p[2]) if p[0] == 'c' else Variable(p[1], p[2]) for p in t[3])
            if t[1] < 0:
                pred = Predicate.Identity if t[1] == -1 else Predicate.Existence
            else:
                pred = Predicate(t[1], t[2], len(ps))
            return Predicated(pred, ps)
        raise ValueError(t)

    def rename(s, rn):
        tn = type(s).__name__
        if tn == 'Atomic':
            j = rn['atoms'].get(f'{s.index},{s.subscript}')
            return Atomic(*j) if j else s
        if tn == 'Predicated':
            p = s.predicate
            if p.index >= 0:
                j = rn['preds'].get(f'{p.index},{p.subscript},{p.arity}')
                if j:
                    p = Predicate(j[0], j[1], p.arity)
            ps = []
            for x_ in s.params:
                if type(x_).__name__ == 'Constant':
                    j = rn['consts'].get(f'{x_.index},{x_.subscript}')
                    ps.append(Constant(*j) if j else x_)
                else:
                    j = rn['vars'].get(f'{x_.index},{x_.subscript}')
                    ps.append(Variable(*j) if j else x_)
            return Predicated(p, tuple(ps))
        if tn == 'Operated':
            return s.operator(*(rename(x_, rn) for x_ in s))
        if tn == 'Quantified':
            v = s.variable
            j = rn['vars'].get(f'{v.index},{v.subscript}')
            return Quantified(s.quantifier, Variable(*j) if j else v, rename(s.sentence, rn))
        raise ValueError(s)

    def cnum(c):
        return c.subscript * CONST_W + c.index

    def coq_term(p):
        if type(p).__name__ == 'Constant':
            return f'(TC {cnum(p)})'
        return f'(TV {p.subscript * VAR_W + p.index})'

    def coq_sent(s):
        tn = type(s).__name__
        if tn == 'Atomic':
            return f'(Atom {s.subscript * ATOM_W + s.index})'
        if tn == 'Operated':
            o = s.operator.name
            if o in ('Possibility', 'Necessity'):
                return f'(Mod {o} {coq_sent(s.lhs)})'
            if s.operator.arity == 1:
                return f'(Un {o} {coq_sent(s.lhs)})'
            return f'(Bin {o} {coq_sent(s.lhs)} {coq_sent(s.rhs)})'
        if tn == 'Quantified':
            v = s.variable
            return f'(Qu {s.quantifier.name} {v.subscript * VAR_W + v.index} {coq_sent(s.sentence)})'
        if tn == 'Predicated':
            p = s.predicate
            if p.index < 0:
                code = {-1: 0, -2: 1}[p.index]
            else:
                code = 2 + (p.subscript * PRED_W + p.index) * 8 + p.arity
            return f'(Pred {code} [' + '; '.join(coq_term(x) for x in s.params) + '])'
        raise ValueError(s)

    def coq_node(n):
        if 'sentence' in n:
            d = n.get('designated')
            w = n.get('world')
            return f"NS {coq_sent(n['sentence'])} {'false' if d is False else 'true'} {0 if w is None else int(w)}"
        if 'world1' in n:
            return f"NA {int(n['world1'])} {int(n['world2'])}"
        return None

    def coq_list(xs):
        return '[' + '; '.join(xs) + ']'

    def tree_term(t):
        if t['kind'] == 'closed':
            return 'GClosed'
        if t['kind'] in ('open', 'cut'):
            return 'GOpen'
        gs = coq_list(coq_list(g) for g in t['groups'])
        ts = coq_list(tree_term(c) for c in t['children'])
        return f"(GStep ({t['step']}) {gs} {ts})"

    def pcode(p):
        if p.index < 0:
            return {-1: 0, -2: 1}[p.index]
        return 2 + (p.subscript * PRED_W + p.index) * 8 + p.arity

    def export_branch(tab, br, arg):
        "An open branch: its nodes, ticks, the library's model as data, and the library's own judgements."
        Meta = tab.logic.Meta
        nodes = [n for n in br]
        has_flag = any('flag' in n for n in nodes)
        out = dict(limit_flag=has_flag, index=list(tab).index(br))
        snodes = [n for n in nodes if 'flag' not in n]
        out['nodes'] = coq_list(coq_node(n) for n in snodes)
        out['ticked'] = coq_list(str(i) for i, n in enumerate(snodes) if br.is_ticked(n))
        out['n_nodes'] = len(snodes)
        out['n_worlds'] = len(br.worlds)
        out['max_worlds'] = None
        try:
            from pytableaux.proof.helpers import MaxWorlds
            for rule in tab.rules:
                try:
                    h = rule[MaxWorlds]
                except Exception:
                    continue
                out['max_worlds'] = h.get(br.origin)
                break
        except Exception:
            pass
        def shape(n):
            if 'sentence' not in n:
                return 'access'
            s_ = n['sentence']
            neg = False
            if type(s_).__name__ == 'Operated' and s_.operator.name == 'Negation':
                inner = s_.lhs
                if type(inner).__name__ in ('Operated', 'Quantified'):
                    neg, s_ = True, inner
            tn = type(s_).__name__
            base = s_.operator.name if tn == 'Operated' else (s_.quantifier.name if tn == 'Quantified' else tn)
            if neg and base == 'Negation':
                base, neg = 'DoubleNegation', False
            d = n.get('designated')
            return base + ('Negated' if neg else '') + ('' if d is None else ('Designated' if d else 'Undesignated'))
        out['shapes'] = [shape(n) for n in snodes]
        try:
            last = tab.history[-1]
            out['last_step'] = dict(rule=last.rule.name, same_branch=last.target.branch is br)
        except Exception:
            out['last_step'] = None
        model = br.model
        if model is None:
            out['model'] = None
            return out
        des = Meta.designated_values
        judg = []
        for n in snodes:
            if 'sentence' in n:
                try:
                    v = model.value_of(n['sentence'], world=n.get('world') or 0)
                    d = n.get('designated')
                    judg.append(bool((v in des) == (True if d is None else d)))
                except Exception as e:
                    judg.append(f'!{type(e).__name__}')
            else:
                judg.append(bool(model.R.has((n['world1'], n['world2']))))
        out['lib_node_ok'] = judg
        try:
            out['lib_countermodel'] = bool(model.is_countermodel_to(arg))
        except Exception as e:
            out['lib_countermodel'] = f'!{type(e).__name__}: {e}'
        worlds = sorted(model.frames)
        pairs = list(model.R.flat(sort=True))
        def V(v):
            return 'V' + (v.name if hasattr(v, 'name') else str(v))
        atoms, prs, opqs = [], [], []
        for w in worlds:
            fr = model.frames[w]
            atoms.append(f"({w}, " + coq_list(f'({a.subscript * ATOM_W + a.index}, {V(v)})' for a, v in sorted(fr.atomics.items())) + ')')
            plist = []
            for pred in sorted(fr.predicates):
                interp = fr.predicates[pred]
                plist.append(f'({pcode(pred)}, ' + coq_list(
                    '(' + coq_list(str(cnum(c)) for c in params) + f', {V(v)})' for params, v in sorted(interp.items())) + ')')
            prs.append(f'({w}, ' + coq_list(plist) + ')')
            opqs.append(f'({w}, ' + coq_list(f'({coq_sent(s_)}, {V(v)})' for s_, v in sorted(fr.opaques.items())) + ')')
        out['model'] = ('{| md_worlds := ' + coq_list(map(str, worlds)) +
                        '; md_pairs := ' + coq_list(f'({a}, {b_})' for a, b_ in pairs) +
                        '; md_consts := ' + coq_list(str(cnum(c)) for c in sorted(model.constants)) +
                        f'; md_unassigned := {V(Meta.unassigned_value)}' +
                        '; md_atoms := ' + coq_list(atoms) + '; md_preds := ' + coq_list(prs) +
                        '; md_opqs := ' + coq_list(opqs) + ' |}')
        return out

    def idx_of(b, node):
        "Position among the sentence / access nodes (limit-flag nodes are inert and not part of the certificate)."
        i = 0
        for n in b:
            if n is node:
                return i
            if 'flag' not in n:
                i += 1
        return None

    def run(job):
        logic = registry(job['logic'])
        res = dict(logic=logic.Meta.name, id=job.get('id'))
        try:
            if 'example' in job:
                arg = examples.arguments[job['example']]
                prems, concl = list(arg.premises), arg.conclusion
            elif 'argstr' in job:
                arg = Argument(job['argstr'])
                prems, concl = list(arg.premises), arg.conclusion
            else:
                prems = [build(p) for p in job['premises']]
                concl = build(job['conclusion'])
                arg = Argument(concl, prems)
            if job.get('rename') or job.get('extra') is not None:
                if job.get('rename'):
                    prems = [rename(p, job['rename']) for p in prems]
                    concl = rename(concl, job['rename'])
                if job.get('extra') is not None:
                    prems = prems + [build(job['extra'])]
                arg = Argument(concl, prems)
            opts = dict(job.get('opts') or {})
            if job.get('models'):
                opts['is_build_models'] = True
            opts.setdefault('build_timeout', int(job.get('timeout_ms', 4000)))
            reset_serial()
            tab = Tableau(logic, arg, **opts)
            b0 = tab[0]
            trunk_nodes = [coq_node(n) for n in b0]
            root = {'kind': None}
            cursor = {b0: root}
            expressible = all(x is not None for x in trunk_nodes)
            why = []
            rules_used = []
            nsteps = 0
            maxsteps = job.get('max_export_steps', 4000)
            while True:
                lens = {br: len(br) for br in tab}
                fresh = {br: (br.new_constant(), br.new_world()) for br in tab.open}
                nb = len(tab)
                entry = tab.step()
                if not entry:
                    break
                nsteps += 1
                if nsteps > maxsteps:
                    expressible = False
                    why.append('too-long')
                    break
                rule, target = entry.rule, entry.target
                b = target.branch
                cur = cursor.get(b)
                rules_used.append(rule.name)
                if cur is None or not expressible:
                    expressible = False
                    why.append('unknown-branch')
                    continue
                if getattr(rule, 'closure', False):
                    cur['kind'] = 'closed'
                    added = list(b)[lens[b]:]
                    if len(tab) != nb or not all(n.get('flag') == 'closure' for n in added):
                        expressible = False
                        why.append('closure-adds-nodes')
                    continue
                L = lens[b]
                newbs = list(tab)[nb:]
                groups_raw = [list(b)[L:]] + [list(x)[L:] for x in newbs]
                if target.get('flag') or any('flag' in n for g in groups_raw for n in g):
                    # a limit flag (MaxWorlds / MaxConstants quit flag): an inert marker node.  The branch may
                    # still be extended and closed by other rules, so the certificate simply goes on; a leaf
                    # that stays open under a flag is 'cut' (no verdict is read off it).
                    if len(groups_raw) != 1 or not all('flag' in n for n in groups_raw[0]):
                        expressible = False
                        why.append('flag-with-other-nodes')
                    continue
                groups = [[coq_node(n) for n in g] for g in groups_raw]
                node = target.get('node')
                name = rule.name
                step = None
                if name == 'Reflexive':
                    step = f"GRefl {int(groups_raw[0][0]['world1'])}"
                elif name == 'Serial':
                    n0 = groups_raw[0][0]
                    step = f"GSerial {int(n0['world1'])} {int(n0['world2'])}"
                elif name == 'Symmetric':
                    i = idx_of(b, node)
                    step = None if i is None else f'GSym {i}'
                elif name == 'Transitive':
                    ns = target.get('nodes') or ()
                    ii = [idx_of(b, x) for x in ns]
                    step = None if len(ii) != 2 or None in ii else f'GTrans {ii[0]} {ii[1]}'
                elif name == 'IdentityIndiscernability':
                    ns = target.get('nodes') or ()
                    ii = [idx_of(b, x) for x in ns]
                    step = None if len(ii) != 2 or None in ii else f'GIdent {ii[0]} {ii[1]}'
                else:
                    i = idx_of(b, node)
                    q = getattr(rule, 'quantifier', None)
                    o = getattr(rule, 'operator', None)
                    if i is None:
                        step = None
                    elif q is not None:
                        if rule.ticking:
                            step = f'GWitC {i} {cnum(fresh[b][0])}'
                        else:
                            c = target.get('constant')
                            step = None if c is None else f'GAllC {i} {cnum(c)}'
                    elif o is not None and o.name in ('Possibility', 'Necessity'):
                        if rule.ticking:
                            step = f'GWitW {i} {int(fresh[b][1])}'
                        else:
                            ns = target.get('nodes') or ()
                            ii = [idx_of(b, x) for x in ns]
                            step = None if len(ii) != 2 or None in ii else f'GAllW {ii[0]} {ii[1]}'
                    elif o is not None:
                        step = f'GTF {i}'
                if step is None:
                    expressible = False
                    why.append(f'step:{name}')
                    continue
                children = [{'kind': None} for _ in groups]
                cur.update(kind='step', step=step, groups=groups, children=children)
                cursor[b] = children[0]
                for c, x in zip(children[1:], newbs):
                    cursor[x] = c

            for br in tab:
                leaf = cursor.get(br)
                if isinstance(leaf, dict) and leaf['kind'] is None and any(
                        'flag' in n and n.get('flag') != 'closure' for n in br):
                    leaf['kind'] = 'cut'

            def close_leaves(t):
                if t['kind'] is None:
                    t['kind'] = 'open'
                elif t['kind'] == 'step':
                    for c in t['children']:
                        close_leaves(c)
            close_leaves(root)
            flags = [str(n.get('flag')) for br in tab for n in br if 'flag' in n and n.get('flag') != 'closure']
            if (job.get('models') or job.get('export_open')) and tab.invalid:
                res['open_branches'] = [export_branch(tab, br, arg) for br in tab.open]
            res.update(
                ok=True, expressible=expressible, why=why,
                trunk=coq_list(x or 'NA 0 0' for x in trunk_nodes),
                prems=coq_list(coq_sent(p) for p in prems), concl=coq_sent(concl),
                tree=tree_term(root) if expressible else None,
                valid=tab.valid, invalid=tab.invalid, premature=bool(tab.premature),
                finished=bool(tab.finished), steps=nsteps, history=len(tab.history),
                branches=len(tab), open=len(tab.open), flags=flags,
                rules=sorted(set(rules_used)), argstr=arg.argstr() if hasattr(arg, 'argstr') else str(arg))
        except Exception as e:
            import traceback
            if type(e).__name__ == 'ProofTimeoutError':
                res.update(ok=True, timeout=True, expressible=False, why=['timeout'], valid=None, invalid=None,
                           rules=[], steps=0, branches=0, flags=[], premature=True, finished=True, argstr='')
                return res
            if type(e).__name__ == 'ModelValueError' and job.get('models') and not job.get('_retry'):
                # the model builder refused an open branch (conflicting values): export the branches without models
                # so that the driver can say which rule instance the branch is missing
                r2 = run(dict(job, models=False, _retry=True, export_open=True))
                r2['model_error'] = f'{type(e).__name__}: {e}'
                r2['model_tb'] = traceback.format_exc()[-1200:]
                return r2
            res.update(ok=False, error=f'{type(e).__name__}: {e}', tb=traceback.format_exc()[-1200:])
        return res

    jobs = json.load(sys.stdin)['jobs']
    outs = pr.fanout(jobs, run)
    json.dump(dict(results=outs), sys.stdout)


if __name__ == '__main__':
    main()
