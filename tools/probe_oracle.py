"""Runs in the implementation's interpreter: the prover's verdict on propositional arguments next to a brute-force
truth-table oracle that uses the implementation's own truth function (used only by the failing-input search)."""
import itertools, json, sys
import probe_rules as pr


def main():
    registry = pr.setup()
    from pytableaux.lang import Argument, Atomic, Operator
    from pytableaux.proof import Tableau

    def build(t):
        if t[0] == 'A':
            return Atomic(t[1] % 5, t[1] // 5)
        if t[0] == 'U':
            return Operator[t[1]](build(t[2]))
        return Operator[t[1]](build(t[2]), build(t[3]))

    def ev(model_tf, vals, s, v):
        tn = type(s).__name__
        if tn == 'Atomic':
            return v[s]
        args = [ev(model_tf, vals, x, v) for x in s]
        return model_tf(s.operator, *args)

    def run(job):
        logic = registry(job['logic'])
        try:
            prems = [build(p) for p in job['premises']]
            concl = build(job['conclusion'])
            arg = Argument(concl, prems)
            tab = Tableau(logic, arg, build_timeout=3000).build()
            Meta = logic.Meta
            m = logic.Model()
            atoms = sorted(set().union(*[s.atomics for s in prems + [concl]]))
            des = Meta.designated_values
            valid = True
            for combo in itertools.product(list(Meta.values), repeat=len(atoms)):
                v = dict(zip(atoms, combo))
                if all(ev(m.truth_function, Meta.values, p, v) in des for p in prems) and \
                        ev(m.truth_function, Meta.values, concl, v) not in des:
                    valid = False
                    break
            return dict(ok=True, valid=tab.valid if not tab.premature else None, oracle_valid=valid, argstr=arg.argstr())
        except Exception as e:
            return dict(ok=False, error=f'{type(e).__name__}: {e}')

    jobs = json.load(sys.stdin)['jobs']
    json.dump(dict(results=pr.fanout(jobs, run)), sys.stdout)


if __name__ == '__main__':
    main()
