"""Runs in the implementation's interpreter.  Validates the assumption behind
schematic probing: every rule is uniform in its operands.  For every rule of
every logic, the real rule is applied to random COMPOUND operands and the nodes
it produces must be exactly the instance of the schema that probe_rules.py
abstracted from the generic operands.  argv: seed per_rule."""
from __future__ import annotations

import json
import random
import sys

import probe_rules as pr


def main():
    seed = int(sys.argv[1]) if len(sys.argv) > 1 else 0
    per_rule = int(sys.argv[2]) if len(sys.argv) > 2 else 2
    registry = pr.setup()
    from pytableaux.lang import (Atomic, Constant, Operated, Operator, Predicate, Predicated,
                                 Quantified, Quantifier, Variable)
    C, D, E = Atomic(2, 0), Atomic(3, 0), Atomic(4, 1)
    G = Predicate(1, 0, 1)
    H = Predicate(2, 0, 2)
    x, y = Variable(0, 0), Variable(1, 0)
    tf_ops = [o for o in Operator if o.name not in ('Possibility', 'Necessity')]

    def rand_sent(rng, depth, modal, quantified, free=None):
        """Random sentence; if free is a parameter, it occurs (as argument of G/H) at least once."""
        if depth == 0 or rng.random() < 0.25:
            if free is not None:
                return Predicated(G, (free,)) if rng.random() < 0.7 else \
                    Quantified(rng.choice(list(Quantifier)), y, Predicated(H, (free, y)))
            r = rng.random()
            if quantified and r < 0.2:
                return Quantified(rng.choice(list(Quantifier)), y, Predicated(G, (y,)))
            return rng.choice([C, D, E])
        ops = list(tf_ops) + ([Operator.Possibility, Operator.Necessity] if modal else [])
        o = rng.choice(ops)
        if o.arity == 1:
            return o(rand_sent(rng, depth - 1, modal, quantified, free))
        if free is not None and rng.random() < 0.5:
            return o(rand_sent(rng, depth - 1, modal, quantified, free), rand_sent(rng, depth - 1, modal, quantified, None))
        return o(rand_sent(rng, depth - 1, modal, quantified, free if free is not None else None),
                 rand_sent(rng, depth - 1, modal, quantified, None))

    def inst(s, ctx, newc, anyc):
        if 'opd' in s:
            return ctx.A if s['opd'] == 0 else ctx.B
        if 'body' in s:
            return ctx.body({'bvar': ctx.x, 'new': newc, 'any': anyc}[s['body']])
        if 'un' in s:
            return Operator[s['un']](inst(s['a'], ctx, newc, anyc))
        if 'bin' in s:
            return Operator[s['bin']](inst(s['a'], ctx, newc, anyc), inst(s['b'], ctx, newc, anyc))
        if 'mod' in s:
            return Operator[s['mod']](inst(s['a'], ctx, newc, anyc))
        if 'q' in s:
            return Quantified(Quantifier[s['q']], ctx.x, inst(s['a'], ctx, newc, anyc))
        raise ValueError(s)

    def canon_node(n):
        if 'sentence' in n:
            return ['s', str(n['sentence']), n.get('designated'), n.get('world')]
        if 'world1' in n:
            return ['a', n['world1'], n['world2']]
        return ['f', str(n.get('flag'))]

    def work(modname):
        logic = registry(modname)
        Meta = logic.Meta
        rng = random.Random(f'{seed}:{Meta.name}')
        generic = pr.probe_logic(logic)
        out = []
        modal, quantified = bool(Meta.modal), bool(Meta.quantified)
        for info in generic['rules']:
            if info.get('kind') in (None, 'special') or 'error' in info:
                continue
            fixed_ops = [(Operator.Negation(C), D), (C, Operator.Negation(D)),
                         (Operator.Negation(Operator.Negation(C)), Operator.Conjunction(C, D))]
            for k in range(per_rule + len(fixed_ops)):
                if k < len(fixed_ops):
                    A2, B2 = fixed_ops[k]      # operands that are themselves negations: `-s` vs `~s` slips show here
                else:
                    A2 = rand_sent(rng, 2, modal, quantified)
                    B2 = rand_sent(rng, 2, modal, quantified)
                while B2 == A2:
                    B2 = rand_sent(rng, 2, modal, quantified)
                proto = rand_sent(rng, 1, modal, quantified, free=x)
                body = (lambda p, proto=proto: proto.substitute(p, x))
                ctx = pr.Ctx(A2, B2, body, x)
                s, kind = pr.principal(info, ctx)
                rec = dict(logic=Meta.name, rule=info['name'], kind=kind,
                           operands=[str(A2), str(B2)] if kind != 'quant' else [str(proto)], ok=True)
                try:
                    variants = list(info['variants'])
                    if kind == 'quant' and info.get('ticking') and k == 0:
                        # witness rules once more with the constants mentioned in descending order
                        variants += [dict(v, setup='consts_desc') for v in info['variants'] if v['setup'] == 'consts']
                    if kind == 'modal' and info.get('ticking') and k == 0:
                        # witness rules once more on a branch where a PREDECESSOR world (1 R 0) already carries the
                        # witness sentences: a new world is still required
                        variants += [dict(v, setup='noaccess', pred_has_witness=True) for v in info['variants'] if v['setup'] == 'noaccess']
                    if kind == 'quant' and not info.get('ticking') and k == 0:
                        # per-constant rules once more on a branch whose ONLY constant is mentioned by the principal
                        # node's own body: the rule must instantiate with it
                        body_c = (lambda p, body=body: Operator.Conjunction(body(p), Predicated(G, (pr.Ctx().ca,))))
                        ctx_c = pr.Ctx(A2, B2, body_c, x)
                        variants += [dict(v, setup_apply='empty', ctx=ctx_c, s=pr.principal(info, ctx_c)[0])
                                     for v in info['variants'] if v['setup'] == 'consts']
                    for var in variants:
                        extra_nodes = None
                        if var.get('pred_has_witness'):
                            from pytableaux.proof import anode, sdwnode
                            extra_nodes = [anode(1, 0)]
                            for a_ in var['applied']:
                                for g in a_.get('adds', ()):
                                    for n in g:
                                        if 's' in n and n.get('w') == 'new':
                                            extra_nodes.append(sdwnode(inst(n['s'], ctx, None, ctx.ca), n['d'], 1))
                        cx = var.get('ctx', ctx)
                        applied, env = pr.apply_rule(logic, info, cx, var.get('setup_apply', var['setup']), var.get('s', s), extra_nodes)
                        w0 = env['w']
                        exp_all, got_all = [], []
                        if len(applied) != len(var['applied']):
                            rec.update(ok=False, got=f'{len(applied)} applications', expected=f"{len(var['applied'])} applications")
                            break
                        for a, sch in zip(applied, var['applied']):
                            if 'flag' in a or 'flag' in sch:
                                if ('flag' in a) != ('flag' in sch):
                                    rec.update(ok=False, got=str(a)[:200], expected=str(sch)[:200])
                                continue
                            # the fresh items the rule is entitled to use
                            consts = sorted(env['old_consts'])
                            newc = (max(consts).next() if consts else Constant.first())
                            anyc = cx.ca
                            neww = (max(env['old_worlds']) + 1) if env['old_worlds'] else 0
                            def wv(t):
                                return {None: None, 'same': w0, 'new': neww, 'acc': 1, 'missing': None}[t]
                            exp = []
                            for g in sch['adds']:
                                eg = []
                                for n in g:
                                    if 's' in n:
                                        eg.append(['s', str(inst(n['s'], cx, newc, anyc)), n['d'], wv(n['w'])])
                                    elif 'acc' in n:
                                        eg.append(['a', wv(n['acc'][0]), wv(n['acc'][1])])
                                    else:
                                        eg.append(['f', n['flag']])
                                exp.append(eg)
                            got = [[canon_node(n) for n in g] for g in a['raw']]
                            exp_all.append(exp)
                            got_all.append(got)
                        if rec['ok'] and exp_all != got_all:
                            rec.update(ok=False, got=got_all, expected=exp_all, setup=var['setup'])
                        if not rec['ok']:
                            break
                    if rec['ok'] and kind == 'quant' and not info.get('ticking') and k == 0 and modal:
                        # constant domain: with one constant at the node's own world and another only at a DIFFERENT world,
                        # the per-constant rule instantiates with both
                        from pytableaux.proof import sdwnode
                        cb_ = Constant(1, 0)
                        Gp = Predicate(3, 0, 1)
                        ctx2 = pr.Ctx(A2, B2, None, x)          # plain body F x: instances are not principal nodes themselves
                        s2 = pr.principal(info, ctx2)[0]
                        extra = [sdwnode(Predicated(Gp, (cb_,)), info['designation'], 1),
                                 sdwnode(Predicated(Gp, (ctx2.ca,)), info['designation'], 0)]
                        cv = [v for v in info['variants'] if v['setup'] == 'consts']
                        if cv and cv[0]['applied'] and 'adds' in cv[0]['applied'][0]:
                            sch = cv[0]['applied'][0]
                            applied, env = pr.apply_rule(logic, info, ctx2, 'empty', s2, extra)
                            def expect(c_):
                                return json.dumps([[['s', str(inst(n['s'], ctx2, None, c_)), n['d'], env['w']] for n in g] for g in sch['adds']])
                            exp_set = sorted(expect(c_) for c_ in (ctx2.ca, cb_))
                            got_set = sorted(json.dumps([[canon_node(n) for n in g] for g in a['raw']]) for a in applied if 'raw' in a)
                            if exp_set != got_set:
                                rec.update(ok=False, got=got_set, expected=exp_set, setup='constants at two worlds')
                except Exception as e:
                    rec.update(ok=False, got=f'{type(e).__name__}: {e}', expected='schema instance')
                out.append(rec)
        return out

    mods = sorted(registry.modules)
    outs = pr.fanout(mods, work)
    cases = [r for o in outs for r in o]
    json.dump(dict(cases=cases), sys.stdout)


if __name__ == '__main__':
    main()
