"""C01 — a 'valid' verdict is sound in every logic."""
from __future__ import annotations

import itertools
import json
import random
import re

import coqgen
import rulegen
import c04
import c05
from coqgen import Inexpressible
from vlib import (Check, MachineryError, coq_eval_cases, coq_string, coqc, ensure_theory,
                  gen_dir, probe_json, props_assumptions, write_if_changed)

HEADER = ('From Coq Require Import List Bool String.\n'
          'From PT Require Import Util.Finite Sem.Values Sem.Lit Sem.Syntax Sem.Schema Sem.Gen Sem.Closure Sem.Model\n'
          '  Tab.Node Tab.PropTab Tab.PropSound Tab.FullTab Tab.FullSound.\n'
          'Import ListNotations.\nOpen Scope string_scope.\n'
          'Definition lit_of (n : string) : tables := match lit n with Some t => t | None => '
          '{| t_vals := []; t_des := fun _ => false; t_un := fun _ a => a; t_bin := fun _ a _ => a |} end.\n'
          'Definition ge_of (n : string) : gen4 := match lit_gens n with Some p => fst p | None => g_max end.\n'
          'Definition gu_of (n : string) : gen4 := match lit_gens n with Some p => snd p | None => g_min end.\n')


def b(x) -> str:
    return 'true' if x else 'false'


def grule_term(rule, qterm) -> str:
    is_q = rule['kind'] == 'quant'
    gen_name = rule['quantifier'] if is_q else rule['operator']
    univ = gen_name in ('Universal', 'Necessity')
    return (f"{{| g_isq := {b(is_q)}; g_univ := {b(univ)}; g_neg := {b(rule['negated'])}; "
            f"g_d := {rulegen.dval(rule['designation'])}; g_tick := {b(rule['ticking'])}; g_q := {qterm} |}}")


def emit_logics(chk, g, facts, rules, pid='C01'):
    logics = facts['logics']
    data = c04.gather(facts, rules)
    src = [HEADER]
    tf_names, g_names = {}, {}
    for L in logics:
        n = L['name']
        i = coqgen.ident(n)
        tf_names[n], g_names[n] = [], []
        for item in data[n]:
            if item['error'] or item['term'] is None or item['problems']:
                continue
            rn = coqgen.ident(item['rule']['name'])
            if item['kind'] == 'op':
                src.append(f'Definition r_{i}_{rn} : tfrule := {item["term"]}.')
                tf_names[n].append((item['rule']['name'], f'r_{i}_{rn}'))
            else:
                src.append(f'Definition g_{i}_{rn} : grule := {grule_term(item["rule"], item["term"])}.')
                g_names[n].append((item['rule']['name'], f'g_{i}_{rn}'))
    write_if_changed(g / 'Rules.v', '\n'.join(src) + '\n')
    rc, out = coqc(g / 'Rules.v')
    if rc:
        raise MachineryError('generated Rules.v does not compile:\n' + out[-3000:])

    def sem_of(L):
        n = L['name']
        return (f'{{| s_t := lit_of {coq_string(n)}; s_ge := ge_of {coq_string(n)}; s_gu := gu_of {coq_string(n)}; '
                f's_modal := {b(L["modal"])}; s_quant := {b(L["quantified"])} |}}')

    exprs = []
    for L in logics:
        n = L['name']
        t = f'(lit_of {coq_string(n)})'
        ge, gu = f'(ge_of {coq_string(n)})', f'(gu_of {coq_string(n)})'
        rl = '[' + '; '.join(x for _, x in tf_names[n]) + ']'
        gl = '[' + '; '.join(x for _, x in g_names[n]) + ']'
        ks = '[' + '; '.join(c05.KINDS[c] for c in L['closure'] if c in c05.KINDS) + ']'
        hd = b(L['has_designation'])
        classical = 'SelfIdentityClosure' in L['closure']
        cl = (f'(t_des {t} VT && negb (t_des {t} VF) && negb (t_des {t} (t_un {t} Negation VT)))' if classical else 'true')
        exprs.append(
            f'(map (fun r => rule_two_opd r && is_none (tf_sound {t} r)) {rl}, '
            f'map (fun gr => is_none (q_sound {t} {ge} {gu} (g_isq gr) (gq gr)) && wit_ok gr) {gl}, '
            f'is_none (closure_sound {t} {hd} {ks}) && ks_ok {hd} {ks} && closed_ok {t} && gen_closed {sem_of(L)} '
            f'&& {cl} && ({hd} || neg_flips_t {t}))')
    answers = coq_eval_cases(pid, HEADER + f'Require Import G{pid}.Rules.\n', exprs, shard=20, name='LStatus')
    info = {}
    defs = [HEADER, f'Require Import G{pid}.Rules.\nFrom PTProps Require C01.\n']
    for L, ans in zip(logics, answers):
        n = L['name']
        i = coqgen.ident(n)
        m = re.match(r'\(\[(.*?)\], \[(.*?)\], (true|false)\)$', ans)
        if not m:
            raise MachineryError(f'cannot parse logic status for {n}: {ans[:300]}')
        f1 = [x.strip() == 'true' for x in m.group(1).split(';')] if m.group(1).strip() else []
        f2 = [x.strip() == 'true' for x in m.group(2).split(';')] if m.group(2).strip() else []
        good_tf = [x for (nm, x), f in zip(tf_names[n], f1) if f]
        good_g = [x for (nm, x), f in zip(g_names[n], f2) if f]
        all_names = {r['name'] for r in rules[n]['rules'] if r.get('kind') in ('op', 'quant', 'modal')}
        ok_names = {nm for (nm, x), f in zip(tf_names[n], f1) if f} | {nm for (nm, x), f in zip(g_names[n], f2) if f}
        bad = sorted(all_names - ok_names)
        base_ok = m.group(3) == 'true'
        names = {r['name'] for r in rules[n]['rules']}
        ks = '[' + '; '.join(c05.KINDS[c] for c in L['closure'] if c in c05.KINDS) + ']'
        classical = 'SelfIdentityClosure' in L['closure']
        defs.append(
            f'Definition FL_{i} : flogic := {{| fl_S := {sem_of(L)}; fl_hd := {b(L["has_designation"])}; fl_ks := {ks}; '
            f'fl_classical := {b(classical)}; fl_rules := [{"; ".join(good_tf)}]; fl_grules := [{"; ".join(good_g)}]; '
            f'fl_refl := {b("Reflexive" in names)}; fl_trans := {b("Transitive" in names)}; '
            f'fl_sym := {b("Symmetric" in names)}; fl_serial := {b("Serial" in names)} |}}.')
        all_tf = [x for (nm, x) in tf_names[n]]
        all_g = [x for (nm, x) in g_names[n]]
        defs.append(
            f'Definition FLA_{i} : flogic := {{| fl_S := {sem_of(L)}; fl_hd := {b(L["has_designation"])}; fl_ks := {ks}; '
            f'fl_classical := {b(classical)}; fl_rules := [{"; ".join(all_tf)}]; fl_grules := [{"; ".join(all_g)}]; '
            f'fl_refl := {b("Reflexive" in names)}; fl_trans := {b("Transitive" in names)}; '
            f'fl_sym := {b("Symmetric" in names)}; fl_serial := {b("Serial" in names)} |}}.')
        if base_ok:
            ctac = 'intros _; vm_compute; auto' if classical else 'intro H; discriminate H'
            ntac = 'intro H; discriminate H' if L['has_designation'] else 'intros _; vm_compute; reflexivity'
            defs.append(f'Lemma ok_{i} : fsound_ok FL_{i}.\n'
                        'Proof. constructor; [vm_compute; reflexivity | vm_compute; reflexivity | vm_compute; reflexivity '
                        '| vm_compute; reflexivity | vm_compute; reflexivity | vm_compute; reflexivity | vm_compute; reflexivity | '
                        + ctac + ' ]. Qed.\n'
                        f'Lemma neg_{i} : fl_hd FL_{i} = false -> neg_flips_t (s_t (fl_S FL_{i})) = true.\n'
                        f'Proof. {ntac}. Qed.\n'
                        f'Definition C01_{i} := C01.C01_sound FL_{i} ok_{i} neg_{i}.\n')
        if pid == 'C01':
            for br in bad:
                # a rule whose soundness obligation is refuted is outside the soundness theorem: report it
                kn = chk.known.get((chk.pid, f'sound:{n}:{br}'))
                rl = next((it['rule'] for it in data[n] if it['rule']['name'] == br), None)
                inp = None
                if not (kn and kn.get('status') == 'open') and rl is not None and rl.get('kind') == 'op':
                    import c03
                    inp = c03.search_failing(n, rl)
                    if inp and not inp['verdict_valid']:
                        inp = None      # only an unsound 'valid' is a C01 failure
                chk.violation(f'sound:{n}:{br}',
                              f"{n}: the soundness obligation of rule {br} is refuted, so 'valid' verdicts obtained through it are not covered"
                              + (f"; unsound verdict: {inp['argstr']} is reported valid but has a countermodel" if inp else ''),
                              dict(kind='proof', logic=n, rule=br, **(inp or {})), found_input=bool(inp))
        info[n] = dict(ok=base_ok, bad_rules=bad, n_tf=len(good_tf), n_g=len(good_g))
        chk.obligation(f'{n}:fsound_ok({len(good_tf)} tf rules, {len(good_g)} quantifier/modal rules, closure, tables, generalisers)', base_ok)
        if not base_ok:
            chk.violation(f'sound:{n}:base-obligations',
                          f'{n}: closure / table / generaliser obligations of the soundness theorem are not discharged',
                          dict(kind='obligation', logic=n, obligation=f'fsound_ok FL_{i}'), found_input=False)
    write_if_changed(g / 'Logics.v', '\n'.join(defs) + '\n')
    rc, out = coqc(g / 'Logics.v', timeout=900)
    if rc:
        raise MachineryError('generated Logics.v does not compile:\n' + out[-3000:])
    return info


# ---- random modal / first-order arguments ------------------------------------------------

def rand_arg(rng, modal, quantified):
    def sent(depth, var=None):
        r = rng.random()
        if depth == 0 or r < 0.2:
            if quantified and (var is not None or rng.random() < 0.5):
                if var is not None and rng.random() < 0.8:
                    p = ['v', var, 0]
                else:
                    p = ['c', rng.randrange(2), 0]
                if rng.random() < 0.15:
                    return ['P', -1, 0, [p, ['c', rng.randrange(2), 0]]]
                return ['P', rng.randrange(2), 0, [p]]
            return ['A', rng.randrange(3)]
        kind = rng.random()
        if modal and kind < 0.25:
            return ['M', rng.choice(['Possibility', 'Necessity']), sent(depth - 1, var)]
        if quantified and var is None and kind < 0.5:
            return ['Q', rng.choice(['Existential', 'Universal']), 0, ensure_var(sent(depth - 1, 0))]
        if kind < 0.65:
            return ['U', 'Negation', sent(depth - 1, var)]
        return ['B', rng.choice(['Conjunction', 'Disjunction', 'MaterialConditional', 'Conditional',
                                  'MaterialBiconditional', 'Biconditional']), sent(depth - 1, var), sent(depth - 1, var)]

    def has_var(t):
        if t[0] == 'P':
            return any(p[0] == 'v' for p in t[3])
        return any(has_var(x) for x in t[1:] if isinstance(x, list))

    def ensure_var(t):
        if has_var(t):
            return t
        return ['B', 'Conjunction', ['P', 0, 0, [['v', 0, 0]]], t]

    k = rng.choice([0, 1, 1, 2])
    return [sent(2) for _ in range(k)], sent(2)


def gen_jobs(logics, examples, tier, seed):
    rng = random.Random(seed)
    jobs = []
    per_logic_ex = 24 if tier == 'quick' else len(examples)
    n_rand = 12 if tier == 'quick' else 120
    n_opt = 3 if tier == 'quick' else 25
    for L in logics:
        n = L['name']
        exs = list(examples)
        if per_logic_ex < len(exs):
            exs = rng.sample(exs, per_logic_ex)
        for e in exs:
            jobs.append(dict(logic=n, example=e, kind='example'))
        for _ in range(n_rand):
            prems, concl = rand_arg(rng, L['modal'], L['quantified'])
            jobs.append(dict(logic=n, premises=prems, conclusion=concl, kind='random'))
        if L['modal']:
            # frame-rule steps with several worlds pending at once (two dead-end worlds, a world reached twice,
            # possibility and its witness at one world): each access node must be justified on its own
            for a in ('b:MLa:MLNa', 'c:MLa:MNa', 'c:KMLaMLNa', 'b:a:Ma:Lb', 'b:MMa:MLNa:La', 'Mb:LMb:MMa'):
                jobs.append(dict(logic=n, argstr=a, kind='frames'))
        if L['modal'] and L['quantified']:
            # sibling branches with different access nodes and a box that reaches the leaf worlds late (through a quantifier)
            for a in ('c:MANLNFmb:MFm:VxLLNFx', 'c:MAMFmb:MFn:VxLNFx', 'c:AMFmMGm:VxLKNFxNGx:MHm'):
                jobs.append(dict(logic=n, argstr=a, kind='frames'))
        for e in rng.sample(list(examples), n_opt):
            for go, ro in itertools.product([True, False], repeat=2):
                if go and ro:
                    continue
                jobs.append(dict(logic=n, example=e, kind='options', opts=dict(is_group_optim=go, is_rank_optim=ro)))
    for i, j in enumerate(jobs):
        j['id'] = i
    return jobs


def run(args) -> int:
    chk = Check('C01', args.tier, args.seed)
    ensure_theory()
    facts = probe_json('probe_facts.py')
    rules = probe_json('probe_rules.py')
    logics = facts['logics']
    byname = {L['name']: L for L in logics}
    g = gen_dir('C01')
    info = emit_logics(chk, g, facts, rules)
    examples = probe_json('probe_examples.py')['titles']
    jobs = gen_jobs(logics, examples, args.tier, args.seed)
    orders = [0] if args.tier == 'quick' else [0, 1, 2]
    n_cert = n_valid = 0
    for order in orders:
        res = probe_json('probe_gproofs.py', stdin=json.dumps(dict(jobs=jobs)), timeout=6000, order=order)['results']
        exprs, idx = [], []
        for job, r in zip(jobs, res):
            n = job['logic']
            L = byname[n]
            chk.count('kind', job['kind'])
            if not r.get('ok'):
                chk.violation(f'run:{n}:exception:{r.get("error", "").split(":")[0]}',
                              f"{n}: building the tableau raised {r.get('error')}",
                              dict(kind='proof', job=job, order=order, error=r.get('error'), tb=r.get('tb')))
                continue
            if r.get('timeout'):
                chk.count('skipped', 'wall-clock guard (not judged)')
                continue
            if not r['expressible']:
                chk.count('inexpressible', ','.join(r.get('why') or ['?']))
                if r['valid']:
                    chk.violation(f'run:{n}:inexpressible-valid-proof',
                                  f"{n}: a proof reported valid contains a step the certificate language cannot express ({r.get('why')})",
                                  dict(kind='proof', job=job, order=order, why=r.get('why'), rules=r['rules']), found_input=False)
                continue
            i = coqgen.ident(n)
            hd = b(L['has_designation'])
            exprs.append(f'(gcheck FL_{i} {r["tree"]} {r["trunk"]} [], '
                         f'nodes_eqb {r["trunk"]} (trunk {hd} 0 {r["prems"]} {r["concl"]}), gall_closed {r["tree"]})')
            idx.append((job, r))
        answers = coq_eval_cases('C01', HEADER + 'Require Import GC01.Rules GC01.Logics.\n', exprs, shard=250,
                                 name=f'Runs{order}_')
        for (job, r), ans in zip(idx, answers):
            n = job['logic']
            m = re.match(r'\((true|false), (true|false), (true|false)\)$', ans)
            if not m:
                raise MachineryError(f'cannot parse run status: {ans[:200]}')
            ck, tr, ac = (m.group(k) == 'true' for k in (1, 2, 3))
            nontriv = r['steps'] >= 3 and (r['branches'] >= 2 or any(x.startswith(('Exist', 'Univ', 'Poss', 'Nec')) for x in r['rules']))
            label = job.get('example') or [job.get('premises'), job.get('conclusion')]
            chk.case([n, label, job.get('opts'), order], nontrivial=nontriv,
                     sample=dict(logic=n, argument=r['argstr'], opts=job.get('opts'), order=order, valid=r['valid'],
                                 steps=r['steps'], rules=r['rules'][:6], certified=ck) if nontriv and r['valid'] else None)
            rep = dict(kind='proof', logic=n, example=job.get('example'), premises=job.get('premises'),
                       conclusion=job.get('conclusion'), argstr=r['argstr'], opts=job.get('opts'), order=order,
                       verdict_valid=r['valid'], rules=r['rules'])
            used_bad = sorted(set(r['rules']) & set(info[n]['bad_rules']))
            if not tr:
                chk.violation(f'run:{n}:trunk', f"{n}: the trunk is not premises + (undesignated | negated) conclusion", rep)
                continue
            if r['valid'] and not ac:
                chk.violation(f'run:{n}:valid-with-open-branch', f"{n}: reported valid but a branch of the certificate is open", rep)
                continue
            if r['valid']:
                n_valid += 1
            if ck:
                n_cert += 1
                continue
            if used_bad:
                chk.count('uncertified', 'uses-known-unsound-rule')
                if r['valid']:
                    for br in used_bad:
                        chk.violation(f'sound:{n}:{br}',
                                      f"{n}: a proof reported valid uses the rule {br}, whose soundness obligation is refuted (see C04)",
                                      rep, found_input=False)
                continue
            sev = 'valid' if r['valid'] else 'nonvalid'
            chk.violation(f'run:{n}:rejected-by-checker:{sev}',
                          f"{n}: the real proof (valid={r['valid']}) contains a step the verified checker rejects: a rule applied "
                          f"differently from its schema, a non-fresh witness constant/world, an instance on a missing access "
                          f"node, or a wrong closure; rules used {r['rules']}", rep, found_input=False)
    chk.notes['traces_validated_against_impl'] = n_cert
    chk.notes['valid_proofs'] = n_valid
    chk.assumptions = props_assumptions('C01')
    chk.theorems = ['C01_sound', 'C01_branch_unsat']
    chk.rule = ('per logic: fsound_ok obligations (kernel). proofs: example arguments x logics, random modal / first-order arguments '
                '(with identity), option combinations, hash-order seeds; every real proof exported step by step and re-checked by '
                'the verified checker gcheck inside Coq; non-trivial = >= 3 steps and branching or a quantifier/modal rule')
    chk.checker_cmd = 'coqc gen/C01/{Rules,Logics,LStatus*,Runs*}.v against coq/theories/{Sem,Tab}/*.v, Props/C01.v'
    chk.trusted += ['Sem/Lit.v tables, Sem/Gen.v lit_gens, Sem/Model.v eval as each logic\'s semantics (finite constant-domain Kripke models)',
                    'tools/probe_gproofs.py certificate export through the public API']
    chk.notes['explanation'] = (
        'Theorem C01_sound: for every logic with fsound_ok discharged, a certificate accepted by gcheck with all leaves closed '
        'has no countermodel among the finite constant-domain Kripke models of the frame class (any size). It quantifies over '
        'every accepted run, hence over options and tie-break orders. Per run (traces_validated_against_impl): the real history is '
        'accepted by gcheck inside Coq, which includes freshness of every witness constant/world. Rules with refuted obligations '
        '(C04 findings) are excluded from the rule table; valid proofs using them are reported under their key.')
    return chk.finish()


def replay(path: str) -> int:
    rep = json.load(open(path))
    class A: pass
    a = A(); a.tier = rep.get('tier', 'quick'); a.seed = rep.get('seed', 0)
    return run(a)
