"""Runs inside the implementation's interpreter (PYTHONPATH=/repo, hooks on).

  probe_model.py facts        per-logic model parameters + generaliser behaviour on every
                              value list of length <= 3 (complete) -> JSON
  probe_model.py run          stdin: JSON list of cases {logic, ops, sents, worlds};
                              builds each model through the public API, finishes it, exports
                              get_data(), evaluates every sentence at every world -> JSON

Items are passed as small JSON trees (see to_sent / sent_json).  Index and subscript are
packed in one integer n = subscript * K + index (K = 5 atomics, 4 otherwise).  This script
decides nothing."""
from __future__ import annotations

import itertools
import json
import sys

VCODE = {'F': 0, 'N': 1, 'B': 2, 'T': 3}


class Hang(Exception):
    "a call into the implementation did not return within the time limit"


class time_limit:
    "with time_limit(s): ...  raises Hang inside the block after s seconds of CPU time (SIGVTALRM)."

    def __init__(self, seconds):
        self.seconds = seconds

    def _fire(self, *a):
        raise Hang(f'no result after {self.seconds}s')

    def __enter__(self):
        import signal
        self.old = signal.signal(signal.SIGVTALRM, self._fire)
        signal.setitimer(signal.ITIMER_VIRTUAL, self.seconds)

    def __exit__(self, *exc):
        import signal
        signal.setitimer(signal.ITIMER_VIRTUAL, 0)
        signal.signal(signal.SIGVTALRM, self.old)
        return False

# ---------------------------------------------------------------- conversion

def _lang():
    from pytableaux import lang
    return lang


def to_param(j):
    L = _lang()
    k, n = j
    return (L.Constant if k == 'c' else L.Variable)(n % 4, n // 4)


def to_pred(j):
    L = _lang()
    if j == 'I':
        return L.Predicate.Identity
    if j == 'E':
        return L.Predicate.Existence
    n, arity = j
    return L.Predicate((n % 4, n // 4, arity))


def to_sent(j):
    L = _lang()
    k = j[0]
    if k == 'A':
        return L.Atomic(j[1] % 5, j[1] // 5)
    if k == 'P':
        return L.Predicated(to_pred(j[1]), tuple(to_param(p) for p in j[2]))
    if k == 'Q':
        return L.Quantified(L.Quantifier[j[1]], L.Variable(j[2] % 4, j[2] // 4), to_sent(j[3]))
    if k in ('U', 'M'):
        return L.Operated(L.Operator[j[1]], (to_sent(j[2]),))
    if k == 'B':
        return L.Operated(L.Operator[j[1]], (to_sent(j[2]), to_sent(j[3])))
    raise ValueError(j)


def param_json(p):
    L = _lang()
    n = p.subscript * 4 + p.index
    return ['c' if type(p) is L.Constant else 'v', n]


def pred_json(p):
    L = _lang()
    if p is L.Predicate.Identity or p == L.Predicate.Identity:
        return 'I'
    if p == L.Predicate.Existence:
        return 'E'
    return [p.subscript * 4 + p.index, p.arity]


def sent_json(s):
    L = _lang()
    t = type(s)
    if t is L.Atomic:
        return ['A', s.subscript * 5 + s.index]
    if t is L.Predicated:
        return ['P', pred_json(s.predicate), [param_json(p) for p in s.params]]
    if t is L.Quantified:
        v = s.variable
        return ['Q', s.quantifier.name, v.subscript * 4 + v.index, sent_json(s.sentence)]
    if t is L.Operated:
        o = s.operator
        if o.name in ('Possibility', 'Necessity'):
            return ['M', o.name, sent_json(s.lhs)]
        if o.arity == 1:
            return ['U', o.name, sent_json(s.lhs)]
        return ['B', o.name, sent_json(s.lhs), sent_json(s.rhs)]
    raise TypeError(t)


# ---------------------------------------------------------------- export canonicaliser

def canon_frame(d):
    def smap(x):
        return [[sent_json(e['input']), str(e['output'])] for e in x['values']]
    preds = []
    for e in d['Predicates']['values']:
        sym = e['symbol']
        for v in e['values']:
            preds.append([pred_json(v['input']), sym[1:],
                          [[param_json(p) for p in tup] for tup in v['output']]])
    return dict(atomics=smap(d['Atomics']), opaques=smap(d['Opaques']), preds=preds)


def canon_data(model):
    d = model.get_data()
    if not model.Meta.modal:
        return dict(modal=False, worlds=[0], access=[], frames={'0': canon_frame(d)})
    worlds = list(d['Worlds']['values'])
    access = [list(p) for p in d['Access']['values']]
    frames = {}
    for w, fr in zip(worlds, d['Frames']['values']):
        frames[str(w)] = canon_frame(fr['value'])
    return dict(modal=True, worlds=worlds, access=access, frames=frames)


# ---------------------------------------------------------------- facts

def _mod(f):
    return getattr(f, '__module__', '?').split('.')[-1]


HOOKS = ('value_of', 'value_of_opaque', 'value_of_atomic', 'value_of_predicated',
         'value_of_quantified', '_unquantify_values', 'value_of_operated', '_unmodal_values',
         'set_literal_value', 'set_opaque_value', 'set_atomic_value', 'set_predicated_value',
         'finish', '_complete_frames', 'get_data', 'is_sentence_opaque', 'is_sentence_literal')


def gen_tables(logic):
    """value_of(QxFx) / value_of(MA) on models realising every value list of length <= 3."""
    L = _lang()
    Meta = logic.Meta
    vals = list(Meta.values)
    F = L.Predicate((0, 0, 1))
    x = L.Variable(0, 0)
    A = L.Atomic(0, 0)
    out = {}
    if Meta.quantified:
        for q in L.Quantifier:
            rows = []
            hung = False
            s = L.Quantified(q, x, L.Predicated(F, (x,)))
            for n in range(0, 4):
                cs = [L.Constant(i, 0) for i in range(n)]
                for tup in itertools.product(vals, repeat=n):
                    m = logic.Model()
                    order = list(range(n))
                    try:
                        with time_limit(5):
                            for c, v in zip(cs, tup):
                                m.set_predicated_value(L.Predicated(F, (c,)), v)
                            m.finish()
                            order = [c.index for c in m.constants]
                            r = m.value_of(s).name
                    except Exception as e:
                        r = '!' + type(e).__name__
                    rows.append([[tup[i].name for i in order], r])
                    if r == '!Hang':
                        hung = True
                        break
                if hung:
                    break
            out[q.name] = rows
    if Meta.modal:
        for o in (L.Operator.Possibility, L.Operator.Necessity):
            rows = []
            hung = False
            s = L.Operated(o, (A,))
            for n in range(0, 4):
                for tup in itertools.product(vals, repeat=n):
                    m = logic.Model()
                    try:
                        with time_limit(5):
                            for i, v in enumerate(tup):
                                m.R.add((0, 10 + i))
                                m.set_atomic_value(A, v, world=10 + i)
                            m.finish()
                            ws = list(m.R[0])
                            seq = [m.value_of(A, world=w).name for w in ws]
                            r = m.value_of(s, world=0).name
                    except Exception as e:
                        seq, r = [x.name for x in tup], '!' + type(e).__name__
                    rows.append([seq, r])
                    if r == '!Hang':
                        hung = True
                        break
                if hung:
                    break
            out[o.name] = rows
    return out


def facts():
    from pytableaux.logics import registry
    registry.import_all()
    res = []
    for modname in sorted(registry.modules):
        logic = registry(modname)
        Meta, Model = logic.Meta, logic.Model
        ent = dict(
            name=Meta.name,
            values=[v.name for v in Meta.values],
            unassigned=Meta.unassigned_value.name,
            minval=Model.minval.name, maxval=Model.maxval.name,
            first=Model.valseq[0].name, last=Model.valseq[-1].name,
            modal=bool(Meta.modal), quantified=bool(Meta.quantified),
            many_valued=bool(Meta.many_valued),
            modal_operators=sorted(o.name for o in Meta.modal_operators),
            truth_functional=sorted(o.name for o in Meta.truth_functional_operators),
            access=Model.Access.__name__,
            access_enforce=Model.Access.enforce.__qualname__ + '@' + _mod(Model.Access.enforce),
            hooks={h: _mod(getattr(Model, h)) for h in HOOKS},
            frame_hooks={h: _mod(getattr(Model.Frame, h)) for h in
                         ('get_data', '_get_predicates_data', '_get_predicate_data_values',
                          '_get_sentencemap_data', '_get_predicate_data_part')},
            gen=gen_tables(logic),
        )
        res.append(ent)
    json.dump(res, sys.stdout)


# ---------------------------------------------------------------- run cases

def apply_op(m, op):
    L = _lang()
    k = op[0]
    if k == 'atomic':
        m.set_atomic_value(L.Atomic(op[2] % 5, op[2] // 5), op[3], world=op[1])
    elif k == 'opaque':
        m.set_opaque_value(to_sent(op[2]), op[3], world=op[1])
    elif k == 'pred':
        m.set_predicated_value(L.Predicated(to_pred(op[2]), tuple(to_param(p) for p in op[3])),
                               op[4], world=op[1])
    elif k == 'literal':
        m.set_literal_value(to_sent(op[2]), op[3], world=op[1])
    elif k == 'access':
        m.R.add((op[1], op[2]))
    elif k == 'world':
        m.R[op[1]]
    else:
        raise ValueError(op)


def run_case(registry, case, want_data=True):
    logic = registry(case['logic'])
    m = logic.Model()
    out = dict(err=None)
    try:
        with time_limit(4):
            for i, op in enumerate(case['ops']):
                try:
                    apply_op(m, op)
                except Exception as e:
                    out['err'] = [i, type(e).__name__]
                    raise
            try:
                m.finish()
            except Exception as e:
                out['err'] = ['finish', type(e).__name__]
                raise
    except Exception:
        pass
    out['cord'] = [c.subscript * 4 + c.index for c in m.constants]
    out['pord'] = {str(w): [pred_json(p) for p in fr.predicates] for w, fr in m.frames.items()}
    if out['err'] is not None:
        return out
    out['aw'] = sorted(m.R)
    out['ap'] = [list(p) for p in m.R.flat(sort=True)]
    out['fkeys'] = sorted(m.frames)
    if want_data:
        try:
            out['data'] = canon_data(m)
        except Exception as e:
            out['data'] = '!' + type(e).__name__
    out['dump'] = dump(m)
    vals = []
    sents = [to_sent(j) for j in case['sents']]
    for s in sents:
        row = []
        for w in case['worlds']:
            try:
                with time_limit(10):
                    row.append(VCODE[m.value_of(s, world=w).name])
            except Hang:
                row.append(7)
            except Exception as e:
                row.append(8)
        vals.append(row)
    out['vals'] = vals
    if want_data:
        try:
            out['data_after'] = canon_data(m)
        except Exception as e:
            out['data_after'] = '!' + type(e).__name__
    return out


def dump(m):
    frames = {}
    for w, fr in list(m.frames.items()):
        frames[str(w)] = dict(
            atomics=[[sent_json(s), x.name] for s, x in fr.atomics.items()],
            opaques=[[sent_json(s), x.name] for s, x in fr.opaques.items()],
            preds=[[pred_json(p), [param_json(q) for q in params], x.name]
                   for p, interp in fr.predicates.items() for params, x in interp.items()],
            pkeys=[pred_json(p) for p in fr.predicates])
    return dict(frames=frames, R={str(w): list(ws) for w, ws in m.R.items()},
                consts=[c.subscript * 4 + c.index for c in m.constants])


def run():
    from pytableaux.logics import registry
    registry.import_all()
    cases = json.load(sys.stdin)
    json.dump([run_case(registry, c) for c in cases], sys.stdout)


def serial_base():
    """BaseModel.finish (not cpl's) under SerialAccess: no registered logic has that combination (D is
    classical), so it is observed on a subclass of each non-classical modal K-model with Access = SerialAccess."""
    from pytableaux.lang import Atomic
    from pytableaux.logics import registry
    from pytableaux.models import SerialAccess
    registry.import_all()
    res = []
    for name in ('KFDE', 'KK3', 'KLP'):
        base = registry(name).Model
        cls = type('Serial' + name, (base,), dict(Access=SerialAccess, __slots__=()))
        for ops in ([['atomic', 0, 0, 'T']], [['atomic', 1, 0, 'T'], ['access', 0, 1]]):
            m = cls()
            ent = dict(base=name, ops=ops)
            try:
                with time_limit(4):
                    for op in ops:
                        apply_op(m, op)
                    m.finish()
                ent.update(R={str(w): sorted(ws) for w, ws in m.R.items()}, frames=sorted(m.frames),
                           atoms={str(w): sorted(str(k) for k in fr.atomics) for w, fr in m.frames.items()})
                d = m.get_data()
                ent.update(worlds=list(d['Worlds']['values']), access=[list(p) for p in d['Access']['values']])
            except Exception as e:
                ent['err'] = type(e).__name__ + ': ' + str(e)[:120]
            res.append(ent)
    json.dump(res, sys.stdout)


if __name__ == '__main__':
    {'facts': facts, 'run': run, 'serial_base': serial_base}[sys.argv[1]]()
