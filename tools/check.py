"""Entry point: ./check <Cxx> [--tier quick|thorough] [--seed N] [--replay path]."""
import importlib
import sys
import traceback
from pathlib import Path

sys.path.insert(0, str(Path(__file__).resolve().parent))
import vlib


def main() -> int:
    args = vlib.parse_args()
    pid = args.pid.upper()
    try:
        mod = importlib.import_module(pid.lower())
    except ModuleNotFoundError:
        print(f'no check for {pid}', file=sys.stderr)
        return 2
    try:
        if args.replay:
            return mod.replay(args.replay)
        return mod.run(args)
    except vlib.MachineryError as e:
        print(f'MACHINERY-ERROR {pid}: {e}', file=sys.stderr)
        return 2
    except Exception:
        traceback.print_exc()
        return 2


if __name__ == '__main__':
    sys.exit(main())
