"""Runs in the implementation's interpreter (C17): the REAL build timer under a deterministic clock.

The clock of pytableaux.tools.timing advances one millisecond per reading.  Each case is run twice from
scratch: once with the tableau's own StopWatch, once with a reference stopwatch (elapsed = the sum of all
closed start..stop intervals plus the running one) that reads the clock at exactly the same points.  Both
runs step the tableau to the end and record, per step() call, the outcome and the timer's reading; decides
nothing.  stdin: {"cases": [{"logic", "arg", "timeout"}...]}; stdout: {"cases": [{"real": trace, "ref": trace}...]}"""
import json
import sys


def main():
    from pytableaux.lang import Argument
    from pytableaux.proof import Tableau, common
    from pytableaux.tools import timing

    clock = [0.0]

    def fake_time():
        clock[0] += 0.001
        return clock[0]

    timing._time = fake_time

    class RefWatch:
        "Cumulative stopwatch: the specification of the build timer."
        def __init__(self):
            self.acc = 0
            self.t0 = None
            self.count = 0
        @property
        def running(self):
            return self.t0 is not None
        def start(self):
            if self.t0 is not None:
                raise RuntimeError('already started')
            self.count += 1
            self.t0 = timing._nowms()
        def stop(self):
            if self.t0 is None:
                raise RuntimeError('already stopped')
            self.acc += timing._nowms() - self.t0
            self.t0 = None
        def elapsed_ms(self):
            if self.t0 is not None:
                return self.acc + (timing._nowms() - self.t0)
            return self.acc
        elapsed = elapsed_ms
        def elapsed_avg(self):
            return self.elapsed_ms() / self.count if self.count else 0.0
        def elapsed_secs(self):
            return self.elapsed_ms() // 1000
        def reset(self):
            self.acc = 0
            self.t0 = timing._nowms() if self.t0 is not None else None
            return self
        def summary(self):
            return dict(elapsed_ms=self.elapsed_ms(), count=self.count, elapsed_avg=self.elapsed_avg())
        def __enter__(self):
            self.start()
            return self
        def __exit__(self, *a):
            if self.running:
                self.stop()

    def run(case, ref):
        clock[0] = 0.0
        try:
            common._verif_serial[0] = 0
        except AttributeError:
            pass
        tab = Tableau(case['logic'], Argument(case['arg']), build_timeout=case['timeout'], max_steps=300,
                      is_build_models=bool(case.get('models')))
        if ref:
            tab.timers = tab.timers._replace(build=RefWatch())
        trace = []
        for _ in range(400):
            c0 = clock[0]
            try:
                e = tab.step()
                res = 'entry' if e else 'none'
            except Exception as ex:  # noqa
                res = 'err:' + type(ex).__name__
            f = tab.flag
            F = Tableau.Flag
            w = tab.timers.build
            spent = int(round((clock[0] - c0) * 1000))       # clock time that passed inside this step() call
            trace.append([res, bool(F.FINISHED in f), bool(F.PREMATURE in f), bool(F.TIMED_OUT in f), len(tab.history),
                          w.elapsed_ms() if not w.running else None, spent])
            if res != 'entry':
                break
        return trace

    out = []
    for case in json.load(sys.stdin)['cases']:
        rec = {}
        try:
            run(case, True)          # warm-up: one-time work (lazy caches) must not count for either timer
        except Exception:  # noqa
            pass
        for name, ref in (('real', False), ('ref', True)):
            try:
                rec[name] = run(case, ref)
            except Exception as ex:  # noqa
                rec[name] = 'crash:' + type(ex).__name__ + ': ' + str(ex)[:200]
        out.append(rec)
    json.dump(dict(cases=out), sys.stdout)


main()
