"""C20 — the exported description of a model says what the model evaluates."""
from __future__ import annotations

import json
import random
from concurrent.futures import ThreadPoolExecutor

import c08
import coqgen
import mlib
from vlib import Check, ensure_theory, probe_json, props_assumptions

PID = 'C20'
THEOREMS = ['C20_export_faithful', 'C20_export_faithful_history', 'C20_export_faithful_refuted',
            'C20_export_access_old_refuted']
HDR = mlib.HEADER.replace('Sem.Export.', 'Sem.Export Sem.ExportProofs Sem.ExportRun.') + 'Require Import GC20.Logics.\n'

K_ANTI = 'Frame._get_predicate_data_values/unassigned-F-anti-extension'


# ------------------------------------------------------------------ Gallina literals

def cxframe(fr: dict) -> str:
    atoms = mlib.clist(f'({k[1]}, {mlib.cval(x)})' for k, x in fr['atomics'])
    opaqs = mlib.clist(f'({mlib.csent(k)}, {mlib.cval(x)})' for k, x in fr['opaques'])
    preds = mlib.clist(f"({mlib.cpred(p)}, {'false' if sym == '-' else 'true'}, "
                       f"{mlib.clist(mlib.cparams(t) for t in tups)})" for p, sym, tups in fr['preds'])
    return f'{{| x_atoms := {atoms}; x_opaqs := {opaqs}; x_preds := {preds} |}}'


def cxdata(d: dict) -> str:
    frames = mlib.clist(f'({w}, {cxframe(d["frames"][str(w)])})' for w in d['worlds'])
    acc = mlib.clist(f'({a}, {b})' for a, b in d['access'])
    return f'{{| x_worlds := {mlib.cnats(d["worlds"])}; x_access := {acc}; x_frames := {frames} |}}'


def cstate(dump: dict) -> str:
    fk = sorted(int(w) for w in dump['frames'])
    atoms, opaqs, pkeys, preds = [], [], [], []
    for w in fk:
        fr = dump['frames'][str(w)]
        atoms += [f'({w}, {k[1]}, {mlib.cval(x)})' for k, x in fr['atomics']]
        opaqs += [f'({w}, {mlib.csent(k)}, {mlib.cval(x)})' for k, x in fr['opaques']]
        pkeys += [f'({w}, {mlib.cpred(p)})' for p in fr['pkeys']]
        preds += [f'({w}, {mlib.cpred(p)}, {mlib.cparams(ps)}, {mlib.cval(x)})' for p, ps, x in fr['preds']]
    aw = [int(w) for w in dump['R']]
    ap = [(int(w), w2) for w, ws in dump['R'].items() for w2 in ws]
    return (f'(state_of_dump {mlib.cnats(fk)} {mlib.clist(atoms)} {mlib.clist(opaqs)} {mlib.clist(pkeys)} '
            f'{mlib.clist(preds)} {mlib.cnats(aw)} {mlib.clist(f"({a}, {b})" for a, b in ap)} '
            f'{mlib.cnats(dump["consts"])})')


# ------------------------------------------------------------------ clauses on the implementation

def impl_clauses(L: dict, obs: dict):
    """Property clauses checked on the implementation alone: (key, what, detail) list."""
    bad = []
    d, dump = obs['data'], obs['dump']
    if isinstance(d, str):
        return [('BaseModel.get_data/raises', f'get_data() raised {d}', dict())]
    if obs['data2'] != d:
        bad.append(('BaseModel.get_data/not-deterministic', 'two consecutive get_data() calls differ', dict()))
    if L['modal']:
        Rw = sorted(int(w) for w in dump['R'])
        Rp = sorted((int(w), w2) for w, ws in dump['R'].items() for w2 in ws)
        if d['worlds'] != Rw or [tuple(p) for p in d['access']] != Rp:
            key = 'BaseModel.get_data/worlds-or-access-differ-from-R'
            bad.append((key, f'exported worlds {d["worlds"]} / access {d["access"]} but R has worlds {Rw} and pairs {Rp}',
                        dict(worlds=d['worlds'], access=d['access'], R_worlds=Rw, R_pairs=Rp)))
        if d['worlds'] != sorted(d['worlds']) or d['access'] != sorted(d['access']):
            bad.append(('BaseModel.get_data/unsorted', 'exported worlds / access not sorted', dict()))
    if obs.get('data_after') != d:
        key = 'BaseModel.get_data/changes-after-value_of'
        bad.append((key, 'get_data() differs after evaluating sentences at exported worlds '
                    f'(worlds before {d["worlds"]}, after {obs["data_after"]["worlds"] if isinstance(obs["data_after"], dict) else obs["data_after"]})',
                    dict(before=d['worlds'])))
    for w in d['worlds']:
        fr, ev = d['frames'][str(w)], obs['evals'][str(w)]
        for kind in ('atomics', 'opaques'):
            exp = {json.dumps(k): x for k, x in fr[kind]}
            got = {json.dumps(k): x for k, x in ev[kind]}
            if exp != got:
                bad.append((f'Frame.get_data/{kind}-differ-from-value_of',
                            f'world {w}: exported {kind} {fr[kind]} but value_of gives {ev[kind]}', dict(world=w)))
        plus, minus, listed = {}, {}, set()
        for p, sym, tups in fr['preds']:
            listed.add(json.dumps(p))
            (minus if sym == '-' else plus)[json.dumps(p)] = {json.dumps(t) for t in tups}
            if tups != sorted(tups, key=lambda t: [(q[1] // 4, q[1] % 4) for q in t]):
                bad.append(('Frame.get_data/extension-unsorted', f'world {w}: {p}{sym} not sorted: {tups}', dict(world=w)))
        for p, params, x in ev['preds']:
            pk, tk = json.dumps(p), json.dumps(params)
            if pk not in listed:
                bad.append(('Frame.get_data/predicate-missing', f'world {w}: predicate {p} not exported', dict(world=w)))
                continue
            if (x in ('T', 'B')) != (tk in plus.get(pk, set())):
                bad.append(('Frame._get_predicate_data_values/extension',
                            f'world {w}: {p}{params} evaluates to {x} but is {"in" if tk in plus.get(pk, set()) else "not in"} P+',
                            dict(world=w, predicate=p, params=params, value=x)))
            if L['many_valued'] and (x in ('F', 'B')) != (tk in minus.get(pk, set())):
                key = K_ANTI if (L['unassigned'] == 'F' and x == 'F') else 'Frame._get_predicate_data_values/anti-extension'
                bad.append((key, f'{L["name"]} world {w}: {p}{params} evaluates to {x} but is '
                            f'{"in" if tk in minus.get(pk, set()) else "not in"} the exported P-',
                            dict(world=w, predicate=p, params=params, value=x)))
    return bad


def run(args) -> int:
    chk = Check(PID, args.tier, args.seed)
    chk.rule = ('one case = one finished model (built directly by a history of set/add calls, or read from an open '
                'branch of an invalid example argument) under one iteration-order seed; its canonicalised get_data() '
                'is compared inside Coq with the export of the modelled state and, on the implementation alone, with '
                'value_of of every exported atomic/opaque and every predication over the constants at every exported '
                'world; evaluations = those value_of comparisons; distinct = distinct models')
    ensure_theory()
    rng = random.Random(args.seed)
    facts = probe_json('probe_model.py', ['facts'])
    tf = {L['name']: L for L in probe_json('probe_facts.py')['logics']}
    logics, bad = mlib.build_logics(PID, facts, tf)
    by_name = {L['name']: L for L in logics}
    for name, why in bad:
        chk.obligation(f'{name}:expressible', False)
        chk.violation(f'model:{name}:inexpressible', f'model of {name} cannot be expressed: {why}',
                      dict(kind='obligation', logic=name, detail=why), found_input=False)
    # per logic: which clause of export_faithful applies (regenerated facts)
    for L in logics:
        chk.obligation(f'{L["name"]}:unassigned value is F or N (P+ exact)', L['unassigned'] in ('F', 'N'))
        chk.obligation(f'{L["name"]}:anti-extension exact (unassigned N, or no anti-extension exported)',
                       L['unassigned'] == 'N' or not L['many_valued'])
    chk.assumptions = props_assumptions(PID)
    chk.theorems = THEOREMS
    # ---- cases -------------------------------------------------------------------------
    direct = []
    per = 24 if args.tier == 'quick' else 80
    for L in logics:
        hs = c08.histories(rng, L, 'quick')
        rng.shuffle(hs)
        fixed = [[['pred', 0, mlib.F1, [mlib.c(0)], 'T'], ['pred', 0, [1, 1], [mlib.c(1)], L['values'][-2]]],
                 [['atomic', 0, 0, 'T']]]
        # "sorted": the package's order of constants is (subscript, index): a, b, c, d, a1, ... - constants with
        # subscripts (numbers >= 4), set out of order
        fixed += [[['pred', 0, mlib.F1, [mlib.c(k)], 'T'] for k in (5, 1, 4, 0, 2)],
                  [['pred', 0, mlib.G2, [mlib.c(4), mlib.c(1)], 'T'], ['pred', 0, mlib.G2, [mlib.c(1), mlib.c(4)], 'T'],
                   ['pred', 0, mlib.G2, [mlib.c(0), mlib.c(5)], 'T'], ['pred', 0, mlib.G2, [mlib.c(3), mlib.c(0)], 'T']]]
        if L['modal']:
            # "deterministic and sorted": successors added out of order, with world numbers beyond the range in
            # which CPython's small-int sets happen to iterate in numeric order
            fixed += [[['access', 0, 8], ['access', 0, 1], ['atomic', 8, 0, 'T']],
                      [['access', 3, 17], ['access', 3, 9], ['access', 3, 16], ['access', 1, 33], ['access', 1, 2]],
                      [['access', 0, 40], ['access', 0, 8], ['access', 0, 32], ['access', 0, 16], ['access', 0, 24]]]
        more = [mlib.rand_history(rng, L) for _ in range(max(0, per - len(hs)))]
        for ops in fixed + hs[:per] + more:
            direct.append(dict(logic=L['name'], ops=ops))
        # the same model with get_data() looked at during the assembly and just before finish()
        for ops in fixed[:4] + hs[:6]:
            direct.append(dict(logic=L['name'], ops=ops, peek=True))
    titles = probe_json('probe_export.py', ['titles'])
    pairs = []
    for L in logics:
        ts = list(titles)
        if args.tier == 'quick':
            rng.shuffle(ts)
            ts = ts[:20]
        pairs += [[L['name'], t] for t in ts]
    orders = [0, 4] if args.tier == 'quick' else [0, 1, 6]

    def chunked(l, n):
        k = max(1, len(l) // n + 1)
        return [l[i:i + k] for i in range(0, len(l), k)]

    models = []          # (source dict, order, observation)
    for order in orders:
        dparts = chunked(direct, 4)
        bparts = chunked(pairs if order == 0 else pairs[::3], 8)
        with ThreadPoolExecutor(max_workers=mlib.WORKERS) as ex:
            douts = list(ex.map(lambda part: probe_json('probe_export.py', ['direct'], order=order,
                                                        stdin=json.dumps(part), timeout=3000), dparts))
            bouts = list(ex.map(lambda part: probe_json('probe_export.py', ['branches'], order=order,
                                                        stdin=json.dumps(part), timeout=3000), bparts))
        for part, out in zip(dparts, douts):
            for case, r in zip(part, out):
                chk.count('source', 'direct')
                if r['err'] is None:
                    models.append((dict(kind='direct', logic=case['logic'], ops=case['ops'], **({'peek': True} if case.get('peek') else {})), order, r))
                else:
                    chk.count('direct_raised', r['err'])
                    if r['err'] == 'Hang':
                        chk.violation('nontermination:finish-or-export', f'{case["logic"]}: building / exporting the model of '
                                      f'{case["ops"]} did not return within the time limit',
                                      dict(kind='direct', logic=case['logic'], ops=case['ops'], order=order, clause='hang'))
        for out in bouts:
            for ent in out:
                chk.count('source', 'branch')
                if ent.get('error'):
                    chk.count('tableau_error', ent['error'].split(':')[0])
                chk.count('tableau', 'invalid' if ent.get('invalid') else 'not-invalid')
                for k, r in enumerate(ent['models']):
                    models.append((dict(kind='branch', logic=ent['logic'], title=ent['title'], branch=k), order, r))
    # determinism across order seeds: same source -> same exported data
    first = {}
    for src, order, r in models:
        if src['kind'] != 'direct':
            continue   # which open branch is "branch k" depends on the proof search (C09), not on the export
        k = json.dumps(src, sort_keys=True)
        if k in first and first[k][1] != r['data']:
            L = by_name[src['logic']]
            key = 'BaseModel.get_data/order-dependent'
            chk.violation(key, f'{src}: get_data() differs between order seeds {first[k][0]} and {order}',
                          dict(src, clause='order', orders=[first[k][0], order]))
        first.setdefault(k, (order, r['data']))
    # ---- Coq side ------------------------------------------------------------------------
    exprs, idx = [], []
    for n, (src, order, r) in enumerate(models):
        if isinstance(r['data'], str):
            continue
        L = by_name[src['logic']]
        i = coqgen.ident(L['name'])
        exprs.append(f'export_case ML_{i} {cstate(r["dump"])} {cxdata(r["data"])}')
        idx.append((n, 'dump'))
        if src['kind'] == 'direct':
            exprs.append(f'export_case_ops ML_{i} {mlib.clist(mlib.cop(o) for o in src["ops"])} '
                         f'{mlib.cnats(r["cord"])} {mlib.cpord(r["pord"])} {cxdata(r["data"])}')
            idx.append((n, 'ops'))
    answers = mlib.coq_eval(PID, HDR, exprs, name='Cases', shard=max(40, len(exprs) // 16 + 1), timeout=2400)
    COMP = {1: 'worlds', 2: 'access', 3: 'frame-keys', 4: 'atomics', 5: 'opaques', 6: 'predicates', 99: 'model-raised'}
    tie_bad = {}
    for (n, what), ans in zip(idx, answers):
        src, order, r = models[n]
        if what == 'dump':
            wf, diff = [x.strip() for x in ans.strip('()').split(',')]
            if wf != 'true':
                chk.violation('model-tie:state-wf', f'{src}: dumped state violates the write-once / constants invariants '
                              'assumed by export_faithful', dict(src, order=order, clause='tie'), found_input=False)
            diff = int(diff)
        else:
            diff = int(ans.strip())
        if diff:
            tie_bad[n] = (what, COMP.get(diff, str(diff)))
    # ---- verdict per model ----------------------------------------------------------------
    for n, (src, order, r) in enumerate(models):
        L = by_name[src['logic']]
        found = impl_clauses(L, r)
        nev = sum(len(v['atomics']) + len(v['opaques']) + len(v['preds']) for v in r.get('evals', {}).values())
        chk.cases += nev
        chk.case([src, order], nontrivial=True,
                 sample=dict(src, order=order, worlds=r['data']['worlds'] if isinstance(r['data'], dict) else None)
                 if n % 211 == 0 else None)
        chk.cases -= 1
        chk.count('logic_family_unassigned', L['unassigned'] + ('/many' if L['many_valued'] else '/two'))
        for key, what, detail in found[:20]:
            chk.violation(key, f'{src["logic"]}: {what}', dict(src, order=order, clause=key, detail=detail))
        if n in tie_bad and not found:
            what, comp = tie_bad[n]
            chk.violation(f'model-tie:export:{comp}', f'{src}: Coq export ({what} state) differs from get_data() in {comp} '
                          'although every clause holds on the implementation',
                          dict(src, order=order, clause='tie'), found_input=False)
        elif n in tie_bad:
            # the model exports what the code exports; a difference here while the implementation already
            # violates a clause is reported through that clause
            what, comp = tie_bad[n]
            chk.violation(f'model-tie:export:{comp}', f'{src}: Coq export ({what} state) differs from get_data() in {comp}',
                          dict(src, order=order, clause='tie'), found_input=False)
    chk.checker_cmd = 'coqc gen/C20/{Logics,Cases*}.v against coq/theories/Sem/{PyModel,Export,ExportProofs,ExportRun}.v, Props/C20.v'
    chk.trusted += ['tools/probe_model.py canon_data: canonicaliser of get_data()',
                    'state_wfb (write-once maps, tuples over the constants) is evaluated on every sampled state, '
                    'not proved as an invariant of the setters']
    chk.notes['explanation'] = (
        'obligations = per logic the regenerated facts that select the clauses of export_faithful that apply '
        '(unassigned value in {F,N}: P+ exact; unassigned N or two-valued: P- exact); an undischarged obligation '
        'marks a logic for which the anti-extension clause is refuted (C20_export_faithful_refuted) and reported as '
        'known finding with the concrete model; worlds/access = R is a theorem for every access class')
    return chk.finish()


def replay(path: str) -> int:
    rep = json.load(open(path))
    facts = {L['name']: L for L in probe_json('probe_model.py', ['facts'])}
    L = facts[rep['logic']]
    order = rep.get('order', 0)
    if rep.get('kind') == 'branch':
        ent = probe_json('probe_export.py', ['branches'], order=order, stdin=json.dumps([[rep['logic'], rep['title']]]))[0]
        obs = ent['models'][rep.get('branch', 0)] if len(ent['models']) > rep.get('branch', 0) else None
    else:
        r = probe_json('probe_export.py', ['direct'], order=order, stdin=json.dumps([dict(logic=rep['logic'], ops=rep['ops'], peek=bool(rep.get('peek')))]))[0]
        obs = r if r['err'] is None else None
    if rep.get('clause') == 'hang':
        if rep.get('kind') == 'direct' and r['err'] == 'Hang':
            print(f'VIOLATION property={PID} replay={path}')
            return 1
        return 0
    if obs is None:
        print('replay: the model is no longer produced')
        return 0
    if rep.get('clause') == 'order':
        o2 = rep.get('orders', [0, 1])
        outs = []
        for o in o2:
            if rep.get('kind') == 'branch':
                e = probe_json('probe_export.py', ['branches'], order=o, stdin=json.dumps([[rep['logic'], rep['title']]]))[0]
                outs.append(e['models'][rep.get('branch', 0)]['data'] if e['models'] else None)
            else:
                outs.append(probe_json('probe_export.py', ['direct'], order=o,
                                       stdin=json.dumps([dict(logic=rep['logic'], ops=rep['ops'], peek=bool(rep.get('peek')))]))[0].get('data'))
        bad = outs[0] != outs[1]
    else:
        found = impl_clauses(L, obs)
        hits = [f for f in found if f[0] == rep.get('clause')]
        for f in hits[:3]:
            print('replay:', f[1])
        bad = bool(hits)
    if bad:
        print(f'VIOLATION property={PID} replay={path}')
        return 1
    return 0
