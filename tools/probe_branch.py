"""Runs in the implementation's interpreter (C06): executes append/copy histories on real
pytableaux Branch objects and prints what they report.  Decides nothing.

stdin JSON: {"alphabet": {name: spec}, "histories": [[op...]...], "mode": "final"|"trace"}
  spec: {"consts": [[index, subscript]...] | null, "neg": bool, "designated": bool|null,
         "world"/"world1"/"world2": int|null, "flag": null|"closure"|"quit"|"other"}
  op:   ["A", i, name]  append a NEW node built from alphabet[name] to heap[i]
        ["C", i]        heap.append(heap[i].copy())
stdout JSON: {"maxi":…, "first":[i,s], "alphabet_consts": {name: [[i,s]…]|null}, "results": […]}
  result (final): {"errs": [exception type name|null per op], "heap": [obs…]}
  result (trace): [{"err":…, "heap":[obs…]} per op]
  obs = {"nc":[i,s], "nw":int, "consts":[[i,s]…] sorted by (s,i), "worlds":[…] sorted, "closed":bool,
         "nc_on": bool  new_constant() occurs in a sentence of a SentenceNode on the branch (recomputed from nodes),
         "nw_on": bool  some world of a Modal node on the branch is >= new_world() (recomputed from nodes),
         "sets_ok": bool constants/worlds equal the sets recomputed from the nodes}
"""
import json
import sys


def main():
    from pytableaux.lang import Constant, Predicate
    from pytableaux.proof import Branch, Node
    from pytableaux.proof.common import Modal, SentenceNode
    req = json.load(sys.stdin)
    mode = req.get('mode', 'final')

    def mapping(spec):
        m = {}
        if spec.get('consts') is not None:
            cs = [Constant(i, s) for i, s in spec['consts']]
            sen = Predicate(0, 0, len(cs))(*cs) if len(cs) != 1 else Predicate(0, 0, 1)(cs[0])
            if spec.get('neg'):
                sen = ~sen
            m['sentence'] = sen
        if spec.get('designated') is not None:
            m['designated'] = spec['designated']
        for k in ('world', 'world1', 'world2'):
            if spec.get(k) is not None:
                m[k] = spec[k]
        f = spec.get('flag')
        if f == 'closure':
            m.update(Node.PropMap.Closure)
        elif f == 'quit':
            m.update(Node.PropMap.QuitFlag)
        elif f:
            m.update({'is_flag': True, 'flag': f})
        return m

    maps = {k: mapping(v) for k, v in req['alphabet'].items()}
    ckey = lambda c: (c.subscript, c.index)

    def observe(b):
        nc = b.new_constant()
        nw = b.new_world()
        cons = set()
        wor = set()
        for n in b:
            if isinstance(n, SentenceNode):
                cons |= set(n['sentence'].constants)
            if isinstance(n, Modal):
                wor |= set(n.worlds())
        return dict(nc=[nc.index, nc.subscript], nw=nw,
                    consts=[[c.index, c.subscript] for c in sorted(b.constants, key=ckey)],
                    worlds=sorted(b.worlds), closed=bool(b.closed),
                    nc_on=nc in cons, nw_on=any(w >= nw for w in wor),
                    sets_ok=(set(b.constants) == cons and set(b.worlds) == wor))

    results = []
    for h in req['histories']:
        heap = [Branch()]
        errs = []
        tr = []
        for op in h:
            err = None
            try:
                if op[0] == 'A':
                    heap[op[1]].append(dict(maps[op[2]]))
                else:
                    heap.append(heap[op[1]].copy())
            except Exception as e:  # noqa
                err = type(e).__name__
            errs.append(err)
            if mode == 'trace':
                tr.append(dict(err=err, heap=[observe(b) for b in heap]))
        results.append(tr if mode == 'trace' else dict(errs=errs, heap=[observe(b) for b in heap]))
    ac = {}
    for k, m in maps.items():
        s = m.get('sentence')
        ac[k] = None if s is None else [[c.index, c.subscript] for c in sorted(s.constants, key=ckey)]
    first = Constant.first()
    json.dump(dict(maxi=Constant.TYPE.maxi, first=[first.index, first.subscript],
                   alphabet_consts=ac, results=results), sys.stdout)


if __name__ == '__main__':
    main()
