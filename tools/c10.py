"""C10 — provability obeys the structural laws of a consequence relation."""
from __future__ import annotations

import json
import random
import re

import coqgen
import c01
import c05
from vlib import (Check, MachineryError, coq_eval_cases, coq_string, ensure_theory, gen_dir, probe_json,
                  props_assumptions)

CFG = [dict(opts={}, mode='build', prems='orig')]


def rand_renaming(rng):
    def perm(n):
        xs = list(range(n))
        rng.shuffle(xs)
        return xs
    pa, pc, pv, pp = perm(5), perm(4), perm(4), perm(4)
    sub = rng.randrange(0, 3)
    return dict(
        atoms={f'{i},0': [pa[i], sub] for i in range(5)},
        consts={f'{i},0': [pc[i], sub] for i in range(4)},
        vars={f'{i},0': [pv[i], sub] for i in range(4)},
        preds={f'{i},0,{a}': [pp[i], sub] for i in range(4) for a in (1, 2, 3)})


def flip_keys(kind, logic, job):
    "A valid -> refuted flip: is the refuting run an unsaturated 'completed' branch (C02's finding)? Then use its call-site key."
    import c09
    j = {k: v for k, v in job.items() if k in ('logic', 'example', 'premises', 'conclusion', 'rename', 'extra')}
    try:
        import coqgen, c02
        from vlib import coq_eval_cases
        jj = dict(j, models=True, id=0)
        r = probe_json('probe_gproofs.py', stdin=json.dumps(dict(jobs=[jj])))['results'][0]
        i = coqgen.ident(logic)
        obs = [ob for ob in (r.get('open_branches') or []) if not ob['limit_flag']]
        exprs = [f'unsaturated FLA_{i} {ob["nodes"]} {ob["ticked"]}' for ob in obs]
        hdr = c02.HEADER + 'Require Import GC10.Rules GC10.Logics.\n'
        keys = set()
        for ob, ans in zip(obs, coq_eval_cases('C10', hdr, exprs, shard=50, name='Attr')):
            for k, c in re.findall(r'\((\d+), (\d+)\)', ans):
                k, c = int(k), int(c)
                over = ob.get('max_worlds') is not None and ob.get('n_worlds', 0) > ob['max_worlds']
                keys.add(f'{kind}:' + c02.clause_key(logic, c, 'frame' if c in (4, 6) else ob['shapes'][k], over, ob))
        if keys:
            return sorted(keys)
    except Exception:
        pass
    return [f'{kind}:{logic}']


def run(args) -> int:
    chk = Check('C10', args.tier, args.seed)
    ensure_theory()
    facts = probe_json('probe_facts.py')
    rules = probe_json('probe_rules.py')
    logics = facts['logics']
    g = gen_dir('C10')
    c01.emit_logics(chk, g, facts, rules, pid='C10')     # fsound_ok: hypotheses of C10_monotone / C10_rename
    # reflexivity obligation per logic
    exprs = []
    for L in logics:
        ks = '[' + '; '.join(c05.KINDS[c] for c in L['closure'] if c in c05.KINDS) + ']'
        exprs.append(f'reflexive_ok {"true" if L["has_designation"] else "false"} {ks}')
    hdr = c01.HEADER.replace('Tab.FullTab Tab.FullSound.', 'Tab.FullTab Tab.FullSound Tab.Meta.')
    for L, ans in zip(logics, coq_eval_cases('C10', hdr, exprs, shard=100, name='Refl')):
        ok = ans.strip() == 'true'
        chk.obligation(f'{L["name"]}:reflexive_ok', ok)
        if not ok:
            chk.violation(f'reflexive:{L["name"]}:no-closure-pattern',
                          f'{L["name"]}: no closure rule closes a trunk whose conclusion is a premise',
                          dict(kind='obligation', logic=L['name'], obligation='reflexive_ok'), found_input=False)
    examples = probe_json('probe_examples.py')['titles']
    rng = random.Random(args.seed)
    n_each = 6 if args.tier == 'quick' else 60
    jobs = []
    for L in logics:
        n = L['name']
        for _ in range(n_each):
            prems, concl = c01.rand_arg(rng, L['modal'], L['quantified'])
            if not prems:
                prems = [concl]
            base = dict(logic=n, premises=prems, conclusion=concl, configs=CFG, timeout_ms=2500)
            gid = len(jobs)
            jobs.append(dict(base, role='base', group=gid))
            jobs.append(dict(base, role='reflexive', group=gid, concl_from_prems=rng.randrange(8)))
            extra, _ = c01.rand_arg(rng, L['modal'], L['quantified']), None
            jobs.append(dict(base, role='monotone', group=gid, extra=(extra[0][0] if extra[0] else extra[1])))
            jobs.append(dict(base, role='rename', group=gid, rename=rand_renaming(rng)))
        # reflexivity with many copies of one premise (lookups that only matter on crowded branches)
        A0, A1 = ['A', 0, 0], ['A', 1, 0]
        for lit in (A0, ['U', 'Negation', A0]):
            gid = len(jobs)
            base = dict(logic=n, premises=[lit] * 8 + [A1], conclusion=A1, configs=CFG, timeout_ms=2500)
            jobs.append(dict(base, role='base', group=gid))
            jobs.append(dict(base, role='reflexive', group=gid, concl_from_prems=3))
            jobs.append(dict(base, role='monotone', group=gid, extra=lit))
        if L['modal']:
            # a modal theorem stays proved when premises are added that bring the branch up to its projected number of worlds
            C2 = ['A', 2]
            thm = ['U', 'Negation', ['M', 'Possibility', ['B', 'Conjunction', ['M', 'Necessity', C2], ['U', 'Negation', C2]]]]
            LMa, LMb = (['M', 'Necessity', ['M', 'Possibility', ['A', k_]]] for k_ in (0, 1))
            for prems in ([], [LMa]):
                gid = len(jobs)
                base = dict(logic=n, premises=prems, conclusion=thm, configs=CFG, timeout_ms=2500)
                jobs.append(dict(base, role='base', group=gid))
                for extra in (LMb, ['M', 'Possibility', ['A', 1]], ['M', 'Necessity', ['A', 1]]):
                    jobs.append(dict(base, role='monotone', group=gid, extra=extra))
        if 'SelfIdentityClosure' in L['closure']:
            # monotonicity around identity: m = n, Fm |- ~~Fn stays valid whatever else mentions m, wherever it is added
            m_, n_ = ['c', 0, 0], ['c', 1, 0]
            Imn, Fm = ['P', -1, 0, [m_, n_]], ['P', 0, 0, [m_]]
            NNFn = ['U', 'Negation', ['U', 'Negation', ['P', 0, 0, [n_]]]]
            for prems in ([Imn, Fm], [Fm, Imn]):
                gid = len(jobs)
                base = dict(logic=n, premises=prems, conclusion=NNFn, configs=CFG, timeout_ms=2500)
                jobs.append(dict(base, role='base', group=gid))
                for extra in (['P', 1, 0, [m_]], ['P', 2, 0, [m_, m_]], ['P', 1, 0, [n_]], ['P', -1, 0, [n_, ['c', 2, 0]]]):
                    jobs.append(dict(base, role='monotone', group=gid, extra=extra))
                    jobs.append(dict(base, role='monotone', group=gid, extra=extra, extra_front=True))
        # renaming symbols that share an index and differ only in the subscript (a vs a1, F vs F1, m vs m1): the two
        # are different symbols before and after (renamed apart to different indexes)
        for prems, concl, rn in (
                ([['A', 5]], ['A', 0], dict(atoms={'0,1': [3, 0]}, consts={}, vars={}, preds={})),       # a1 |- a
                ([['B', 'Conjunction', ['A', 5], ['U', 'Negation', ['A', 0]]]], ['A', 1],
                 dict(atoms={'0,1': [3, 0]}, consts={}, vars={}, preds={}))):
            gid = len(jobs)
            base = dict(logic=n, premises=prems, conclusion=concl, configs=CFG, timeout_ms=2500)
            jobs.append(dict(base, role='base', group=gid))
            jobs.append(dict(base, role='rename', group=gid, rename=rn))
        if L['quantified']:
            m0, m1 = ['c', 0, 0], ['c', 0, 1]
            for prems, concl, rn in (
                    ([['P', 0, 1, [m0]]], ['P', 0, 0, [m0]], dict(atoms={}, consts={}, vars={}, preds={'0,1,1': [2, 0]})),
                    ([['B', 'Conjunction', ['P', 0, 1, [m0]], ['U', 'Negation', ['P', 0, 0, [m0]]]]], ['A', 0, 0],
                     dict(atoms={}, consts={}, vars={}, preds={'0,1,1': [2, 0]})),
                    ([['P', 0, 0, [m1]]], ['P', 0, 0, [m0]], dict(atoms={}, consts={'0,1': [2, 0]}, vars={}, preds={}))):
                gid = len(jobs)
                base = dict(logic=n, premises=prems, conclusion=concl, configs=CFG, timeout_ms=2500)
                jobs.append(dict(base, role='base', group=gid))
                jobs.append(dict(base, role='rename', group=gid, rename=rn))
            # variables that differ only in their subscript (x, x1), renamed apart; constants on both sides of a
            # compound under a quantifier (every one of them is on the branch: witnesses must avoid them), renamed / with
            # a premise added that mentions them
            x0, x1v, yv = ['v', 0, 0], ['v', 0, 1], ['v', 1, 0]
            Fp = lambda t_: ['P', 0, 0, [t_]]
            Gp = lambda t_: ['P', 1, 0, [t_]]
            Hp = lambda t_: ['P', 2, 0, [t_]]
            VAR_W_ = 4
            for prems, concl, rn in (
                    ([['Q', 'Universal', 0, ['Q', 'Universal', VAR_W_, ['B', 'Conjunction', Fp(x0), Gp(x1v)]]]], Fp(m0),
                     dict(atoms={}, consts={}, vars={'0,1': [1, 0]}, preds={})),
                    ([['Q', 'Existential', 0, ['Q', 'Universal', VAR_W_, ['B', 'Conjunction', Fp(x0), Gp(x1v)]]]],
                     ['Q', 'Existential', 0, Fp(x0)], dict(atoms={}, consts={}, vars={'0,1': [1, 0]}, preds={})),
                    ([['Q', 'Existential', 1, ['B', 'Conjunction', Hp(m0), ['B', 'Conjunction', ['U', 'Negation', Hp(yv)], Gp(['c', 1, 0])]]]],
                     ['A', 1], dict(atoms={}, consts={'0,0': [2, 0]}, vars={}, preds={}))):
                gid = len(jobs)
                base = dict(logic=n, premises=prems, conclusion=concl, configs=CFG, timeout_ms=2500)
                jobs.append(dict(base, role='base', group=gid))
                jobs.append(dict(base, role='rename', group=gid, rename=rn))
                jobs.append(dict(base, role='monotone', group=gid, extra=['P', 3, 0, [m0]]))
                jobs.append(dict(base, role='monotone', group=gid, extra=['P', 3, 0, [m0]], extra_front=True))
            # monotonicity with universal premises that introduce constants of their own, appended and prepended
            Fx_, Gx_, Hx_ = (['P', k_, 0, [['v', 0, 0]]] for k_ in (0, 1, 2))
            Fm_, Gm_, Hm_ = (['P', k_, 0, [m0]] for k_ in (0, 1, 2))
            base_p = [['Q', 'Universal', 0, ['B', 'Conditional', Fx_, Gx_]]]
            base_c = ['B', 'Conditional', Fm_, Gm_]
            gid = len(jobs)
            base = dict(logic=n, premises=base_p, conclusion=base_c, configs=CFG, timeout_ms=2500)
            jobs.append(dict(base, role='base', group=gid))
            for extra in (['Q', 'Universal', 0, ['B', 'Disjunction', Hx_, Hm_]],
                          ['Q', 'Universal', 0, ['B', 'Disjunction', Hx_, ['P', 2, 0, [['c', 1, 0]]]]],
                          ['Q', 'Existential', 0, ['B', 'Conjunction', Hx_, Hm_]]):
                jobs.append(dict(base, role='monotone', group=gid, extra=extra))
                jobs.append(dict(base, role='monotone', group=gid, extra=extra, extra_front=True))
        if L['quantified']:
            Fb = ['P', 0, 0, [['c', 1, 0]]]; Fx = ['P', 0, 0, [['v', 0, 0]]]; Ga = ['P', 1, 0, [['c', 0, 0]]]
            fixed = [([['U', 'Negation', Fb], ['Q', 'Existential', 0, Fx]], Ga),
                     ([['Q', 'Universal', 0, ['P', 2, 0, [['v', 0, 0], ['c', 0, 0]]]]], ['P', 2, 0, [['c', 1, 0], ['c', 0, 0]]]),
                     ([['Q', 'Existential', 0, ['P', 2, 0, [['v', 0, 0], ['c', 2, 0]]]], ['U', 'Negation', ['P', 2, 0, [['c', 0, 0], ['c', 2, 0]]]]],
                      ['P', 0, 0, [['c', 1, 0]]])]
            for prems, concl in fixed:
                gid = len(jobs)
                base = dict(logic=n, premises=prems, conclusion=concl, configs=CFG, timeout_ms=2500)
                jobs.append(dict(base, role='base', group=gid))
                for _ in range(3):
                    jobs.append(dict(base, role='rename', group=gid, rename=rand_renaming(rng)))
        for e in rng.sample(examples, n_each):
            gid = len(jobs)
            base = dict(logic=n, example=e, configs=CFG, timeout_ms=2500)
            jobs.append(dict(base, role='base', group=gid))
            jobs.append(dict(base, role='rename', group=gid, rename=rand_renaming(rng)))
            extra = c01.rand_arg(rng, L['modal'], L['quantified'])
            jobs.append(dict(base, role='monotone', group=gid, extra=extra[1]))
    for i, j in enumerate(jobs):
        j['id'] = i
    res = probe_json('probe_verdicts.py', stdin=json.dumps(dict(jobs=jobs)), timeout=6000)['results']
    groups: dict[int, dict] = {}
    for job, r in zip(jobs, res):
        n = job['logic']
        if not r.get('ok'):
            chk.violation(f'raise:{n}:{r.get("error", "").split(":")[0]}', f"{n}: {r.get('error')}",
                          dict(kind='verdicts', job={k: v for k, v in job.items() if k != 'configs'}, error=r.get('error')))
            continue
        o = r['outcomes'][0]
        chk.count('role', job['role'])
        chk.count('outcome', o['cls'].split(':')[0])
        role = job['role']
        g_ = groups.setdefault(job['group'], {})
        while role in g_ and role != 'base':
            role = role + "'"
        g_[role] = dict(cls=o['cls'], argstr=r['argstr'], steps=o.get('steps'), job=job)
    for gid, gr in groups.items():
        base = gr.get('base')
        if not base:
            continue
        n = base['job']['logic']
        for role, x in gr.items():
            if role == 'base':
                continue
            role = role.rstrip("'")
            nontriv = base['cls'] in ('valid', 'invalid') and (base.get('steps') or 0) >= 3
            chk.case([n, role, base['argstr'], x['argstr']], nontrivial=nontriv,
                     sample=dict(logic=n, law=role, argument=base['argstr'], related=x['argstr'], verdicts=[base['cls'], x['cls']])
                     if nontriv and len(chk.samples) < 8 else None)
            rep = dict(kind='metamorphic', logic=n, law=role, argument=base['argstr'], related=x['argstr'],
                       verdicts=[base['cls'], x['cls']], job={k: v for k, v in x['job'].items() if k != 'configs'})
            if role == 'reflexive':
                if x['cls'] not in ('valid', 'timeout'):
                    chk.violation(f'reflexive:{n}', f"{n}: {x['argstr']} has its conclusion among its premises but is {x['cls']}", rep)
                elif x['cls'] == 'valid' and (x.get('steps') or 0) != 1:
                    chk.violation(f'reflexive:{n}:not-closed-first', f"{n}: {x['argstr']} needed {x.get('steps')} steps (closure is not applied first)", rep)
            elif role == 'monotone':
                if base['cls'] == 'valid' and x['cls'] == 'invalid':
                    for key in flip_keys('monotone', n, x['job']):
                        chk.violation(key, f"{n}: {base['argstr']} is valid but {x['argstr']} (one more premise) is refuted by a limit-free open branch", rep)
            elif role == 'rename':
                if {base['cls'], x['cls']} == {'valid', 'invalid'}:
                    bad = x['job'] if x['cls'] == 'invalid' else base['job']
                    for key in flip_keys('rename', n, bad):
                        chk.violation(key, f"{n}: {base['argstr']} is {base['cls']} but its renaming {x['argstr']} is {x['cls']}", rep)
    chk.assumptions = props_assumptions('C10')
    chk.theorems = ['C10_reflexive', 'C10_monotone', 'C10_rename', 'C10_monotone_all_structures', 'C10_rename_all_structures']
    chk.rule = ('metamorphic pairs on the real prover: conclusion copied from a premise; one random premise added; random injective renaming '
                'of letters, constants, predicates, variables (with subscripts); random modal/first-order arguments and example arguments; '
                'non-trivial = base argument has a verdict and >= 3 steps')
    chk.checker_cmd = 'coqc gen/C10/*.v against coq/theories/Tab/Meta.v, Props/C10.v'
    chk.notes['explanation'] = (
        'C10_reflexive: the trunk of an argument whose conclusion is a premise matches a closure pattern (per-logic obligation reflexive_ok), '
        'so the one-leaf closed certificate is accepted; that the engine applies closure first is observed per run. C10_monotone and C10_rename '
        '(from C01): a valid argument has no countermodel after adding a premise / after renaming; verdict classes of the real prover on related '
        'arguments are compared per run. A valid->invalid flip would need a genuine countermodel (C02) to contradict the theorem; the pair is the replay.')
    return chk.finish()


def replay(path: str) -> int:
    rep = json.load(open(path))
    class A: pass
    a = A(); a.tier = rep.get('tier', 'quick'); a.seed = rep.get('seed', 0)
    return run(a)
