"""C09 — the verdict does not depend on how the proof is searched."""
from __future__ import annotations

import itertools
import json
import random

import c01
from vlib import Check, ensure_theory, gen_dir, probe_json, props_assumptions

OPTS = [dict(is_group_optim=g, is_rank_optim=r) for g, r in itertools.product([True, False], repeat=2)]


def configs():
    cf = []
    for o in OPTS:
        for mode in ('build', 'step'):
            cf.append(dict(opts=o, mode=mode, prems='orig'))
    cf.append(dict(opts=OPTS[0], mode='build', prems='rev'))
    cf.append(dict(opts=OPTS[0], mode='build', prems='dup'))
    cf.append(dict(opts=OPTS[3], mode='step', prems='rev'))
    return cf


def attribute(ent, bad_cfg, job):
    "Why is the argument refuted under bad_cfg although another run proves it? Unsaturated open branch => the C02 call-site key."
    import re
    import coqgen, c02
    from vlib import coq_eval_cases
    cfg, order = bad_cfg
    j = {k: v for k, v in job.items() if k in ('logic', 'example', 'premises', 'conclusion')}
    j.update(opts=cfg.get('opts'), models=True, id=0)
    if cfg.get('prems') == 'rev' and 'premises' in j:
        j['premises'] = j['premises'][::-1]
    if cfg.get('prems') == 'dup' and j.get('premises'):
        j['premises'] = j['premises'] + [j['premises'][0]]
    try:
        r = probe_json('probe_gproofs.py', stdin=json.dumps(dict(jobs=[j])), order=order)['results'][0]
        i = coqgen.ident(ent['logic'])
        exprs = [f'unsaturated FLA_{i} {ob["nodes"]} {ob["ticked"]}' for ob in (r.get('open_branches') or []) if not ob['limit_flag']]
        obs = [ob for ob in (r.get('open_branches') or []) if not ob['limit_flag']]
        hdr = c02.HEADER + 'Require Import GC09.Rules GC09.Logics.\n'
        keys = set()
        for ob, ans in zip(obs, coq_eval_cases('C09', hdr, exprs, shard=50, name='Attr')):
            for k, c in re.findall(r'\((\d+), (\d+)\)', ans):
                k, c = int(k), int(c)
                keys.add('conflict:' + c02.clause_key(ent['logic'], c, 'frame' if c in (4, 6) else ob['shapes'][k], True, ob))
        if keys:
            return sorted(keys)
    except Exception as e:     # attribution is best effort; an unexplained conflict stays a plain violation
        pass
    return [f'conflict:{ent["logic"]}']


def run(args) -> int:
    chk = Check('C09', args.tier, args.seed)
    ensure_theory()
    facts = probe_json('probe_facts.py')
    rules = probe_json('probe_rules.py')
    logics = facts['logics']
    g = gen_dir('C09')
    c01.emit_logics(chk, g, facts, rules, pid='C09')     # fsound_ok per logic: the hypotheses of C09_no_conflict
    import c03
    c03.emit_logics(chk, gen_dir('C09p'), facts, rules, pid='C09p')   # decide_ok: C09_prop_same_verdict
    examples = probe_json('probe_examples.py')['titles']
    rng = random.Random(args.seed)
    n_ex = 6 if args.tier == 'quick' else 40
    n_rand = 4 if args.tier == 'quick' else 40
    cf = configs()
    jobs = []
    for L in logics:
        for e in rng.sample(examples, n_ex):
            jobs.append(dict(logic=L['name'], example=e, configs=cf, timeout_ms=2000))
        for _ in range(n_rand):
            prems, concl = c01.rand_arg(rng, L['modal'], L['quantified'])
            if not prems:
                prems = [concl]
            jobs.append(dict(logic=L['name'], premises=prems, conclusion=concl, configs=cf, timeout_ms=2000))
    # identity arguments whose proof needs substitution into several predicated nodes, in every premise order
    a_, b_ = ['c', 0, 0], ['c', 1, 0]
    Id = lambda x, y: ['P', -1, 0, [x, y]]
    F = lambda x: ['P', 0, 0, [x]]
    import itertools as _it
    for L in logics:
        if 'SelfIdentityClosure' not in L['closure']:
            continue
        for second in (Id(a_, a_), Id(b_, b_), Id(b_, a_)):
            base = [Id(a_, b_), second, F(a_)]
            for perm in _it.permutations(base):
                jobs.append(dict(logic=L['name'], premises=list(perm), conclusion=F(b_), configs=cf[:1] + cf[-3:-2],
                                 timeout_ms=2000, group_key=f"ident:{L['name']}:{json.dumps(second)}"))
    # crowded branches: many copies of one premise before / after the premise that contradicts it (lookups that only
    # matter beyond a handful of candidates), both orders in one group
    A_, B_ = ['A', 0], ['A', 1]
    NA_ = ['U', 'Negation', A_]
    for L in logics:
        for many, one in ((NA_, A_), (A_, NA_)):
            for prems in ([many] * 7 + [one], [one] + [many] * 7, [many] * 4 + [one] + [many] * 4):
                jobs.append(dict(logic=L['name'], premises=prems, conclusion=B_, configs=cf[:1] + cf[-3:-2], timeout_ms=2000,
                                 group_key=f"crowded:{L['name']}:{json.dumps(many)}"))
    # frame-rule dependent arguments: several access nodes pending for the symmetric / transitive / reflexive rules
    # at once, under every configuration (valid in the logics whose frame class makes them so; whatever the verdict,
    # it must be the same under every configuration)
    for L in logics:
        if not L['modal']:
            continue
        if L['quantified']:
            # several dead-end worlds competing for a frame rule: the verdict must not depend on the ranking options
            # (arguments of the form La, MLc |- ~M~a are left out: on the unchanged tree they already flip with premise
            # multiplicity through the recorded NodeCount.isleast defect, C02 / C09 known findings)
            jobs.append(dict(logic=L['name'], argstr='b:MKLaLNa:SxMFx', configs=cf, timeout_ms=2000))
        for a in (('a:MMLa', 'a:MMLa:Mb', 'a:MMLa:MLb', 'LLa:La') if args.tier == 'quick' else
                  ('a:MMLa', 'a:MMLa:Mb', 'a:MMLa:Mb:Mc', 'a:MLa', 'LLa:La', 'MMa:Ma', 'a:MMLa:MLb', 'LMa:MLa')):
            jobs.append(dict(logic=L['name'], argstr=a, configs=cf, timeout_ms=2000))
    for i, j in enumerate(jobs):
        j['id'] = i
    orders = [0, 1] if args.tier == 'quick' else [0, 1, 2, 3]
    seen: dict[int, dict] = {}
    for order in orders:
        res = probe_json('probe_verdicts.py', stdin=json.dumps(dict(jobs=jobs)), timeout=6000, order=order)['results']
        for job, r in zip(jobs, res):
            n = job['logic']
            if not r.get('ok'):
                chk.violation(f'raise:{n}:{r.get("error", "").split(":")[0]}', f"{n}: {r.get('error')}",
                              dict(kind='verdicts', job={k: v for k, v in job.items() if k != 'configs'}, order=order, error=r.get('error')))
                continue
            ent = seen.setdefault(job.get('group_key') or job['id'], dict(classes={}, argstr=r['argstr'], logic=n, jid=job['id']))
            for c, o in zip(job['configs'], r['outcomes']):
                c = dict(c, premise_order=r['argstr']) if job.get('group_key') else c
                chk.count('outcome', o['cls'].split(':')[0])
                key = json.dumps([c, order], sort_keys=True)
                ent['classes'][key] = o['cls']
                if o['cls'].startswith('error:'):
                    chk.violation(f'raise:{n}:{o["cls"][6:]}:{"group" if c["opts"]["is_group_optim"] else "nogroup"}-{"rank" if c["opts"]["is_rank_optim"] else "norank"}',
                                  f"{n}: building {r['argstr']} with {c} raised {o['cls'][6:]}: {o.get('detail')}",
                                  dict(kind='verdicts', logic=n, argstr=r['argstr'], config=c, order=order, outcome=o))
    for jid, ent in seen.items():
        classes = set(ent['classes'].values())
        verdicts = classes & {'valid', 'invalid'}
        chk.case([ent['logic'], ent['argstr']], nontrivial=len(ent['classes']) >= 10 and bool(verdicts),
                 sample=dict(logic=ent['logic'], argument=ent['argstr'], outcome_classes=sorted(classes),
                             configurations=len(ent['classes'])) if len(chk.samples) < 8 else None)
        if len(verdicts) > 1:
            a = next(k for k, v in ent['classes'].items() if v == 'valid')
            b_ = next(k for k, v in ent['classes'].items() if v == 'invalid')
            cause = attribute(ent, json.loads(b_), jobs[ent.get('jid', jid) if not isinstance(jid, int) else jid])
            for key in cause:
                chk.violation(key,
                              f"{ent['logic']}: {ent['argstr']} is valid under {a} but invalid (limit-free open branch) under {b_}"
                              + ('' if key.endswith(ent['logic']) else ' - the refuting branch is unsaturated'),
                              dict(kind='conflict', logic=ent['logic'], argstr=ent['argstr'], valid_under=json.loads(a),
                                   invalid_under=json.loads(b_)))
    chk.assumptions = props_assumptions('C09')
    chk.theorems = ['C09_no_conflict', 'C09_prop_same_verdict']
    chk.rule = ('per argument (examples + random modal/first-order) and logic: 4 option combinations x {build, step loop} + reversed / '
                'duplicated premises, x hash-order seeds; outcome classes valid / invalid (limit-free open branch) / limited / timeout / error; '
                'non-trivial = >= 10 configurations with a verdict')
    chk.checker_cmd = 'coqc gen/C09/*.v gen/C09p/*.v against coq/theories/Tab/Meta.v, Props/C09.v'
    chk.notes['explanation'] = (
        'C09_no_conflict (from C01): a legal run ending valid excludes a genuine countermodel for any reordering/duplication of the premises; '
        'C09_prop_same_verdict (from C03): on the propositional fragment all legal complete runs agree. "No option combination makes the build '
        'raise" and the agreement of the real engine across configurations are observed per run (correspondence); the selection layer '
        '(scores, group optimisation) is not modelled.')
    return chk.finish()


def replay(path: str) -> int:
    rep = json.load(open(path))
    class A: pass
    a = A(); a.tier = rep.get('tier', 'quick'); a.seed = rep.get('seed', 0)
    return run(a)
