"""C05 — branches close exactly when their literals are unsatisfiable."""
from __future__ import annotations

import json
import re

import coqgen
from vlib import (Check, MachineryError, coq_eval_cases, coq_string, coqc, ensure_theory,
                  gen_dir, probe_json, props_assumptions, write_if_changed)

HEADER = ('From Coq Require Import List Bool String.\n'
          'From PT Require Import Util.Finite Sem.Values Sem.Lit Sem.Closure.\n'
          'Import ListNotations.\nOpen Scope string_scope.\n'
          'Definition lit_of (n : string) : tables := match lit n with Some t => t | None => '
          '{| t_vals := []; t_des := fun _ => false; t_un := fun _ a => a; t_bin := fun _ a _ => a |} end.\n')

KINDS = {'DesignationClosure': 'KDesignation', 'GlutClosure': 'KGlut', 'GapClosure': 'KGap',
         'ContradictionClosure': 'KContradiction'}
SPECIAL = {'SelfIdentityClosure', 'NonExistenceClosure'}


def lits_of(rec) -> dict:
    has_des = rec['has_des']
    l = dict(lpp=False, lpm=False, lnp=False, lnm=False)
    for neg, d in rec['lits']:
        key = ('ln' if neg else 'lp') + ('m' if d is False else 'p')
        l[key] = True
    return l


def coq_lits(l) -> str:
    b = lambda x: 'true' if x else 'false'
    return f"{{| lpp := {b(l['lpp'])}; lpm := {b(l['lpm'])}; lnp := {b(l['lnp'])}; lnm := {b(l['lnm'])} |}}"


def run(args) -> int:
    chk = Check('C05', args.tier, args.seed)
    ensure_theory()
    facts = probe_json('probe_facts.py')
    logics = facts['logics']
    cases = probe_json('probe_closure.py')['cases']
    g = gen_dir('C05')
    exprs, keys = [], []
    for L in logics:
        n = L['name']
        ks = []
        unknown = [c for c in L['closure'] if c not in KINDS and c not in SPECIAL]
        for c in unknown:
            chk.obligation(f'{n}:closure-rule-modelled:{c}', False)
            chk.violation(f'closure:{n}:{c}:unmodelled', f'{n}: closure rule {c} is not one of the modelled closure patterns',
                          dict(kind='obligation', logic=n, rule=c, obligation='closure pattern modelled'), found_input=False)
        ks = [KINDS[c] for c in L['closure'] if c in KINDS]
        hd = 'true' if L['has_designation'] else 'false'
        t = f'(lit_of {coq_string(n)})'
        kl = '[' + '; '.join(ks) + ']'
        exprs.append(f'(closure_sound {t} {hd} {kl}, closure_complete {t} {hd} {kl}, '
                     f'neg_true_undesignated {t}, map (closes {kl}) (all_lits {hd}), '
                     f'map (read_vals {hd}) (all_lits {hd}))')
        keys.append((L, ks))
    answers = coq_eval_cases('C05', HEADER, exprs, shard=60, name='Status')
    ob = [HEADER, 'From PTProps Require Import C05.\n']
    model_closes = {}
    for (L, ks), ans in zip(keys, answers):
        n = L['name']
        i = coqgen.ident(n)
        hd = 'true' if L['has_designation'] else 'false'
        t = f'(lit_of {coq_string(n)})'
        kl = '[' + '; '.join(ks) + ']'
        m = re.match(r'\((None|Some \(.*?\)), (None|Some \{.*?\}|Some .*?), (true|false), \[(.*?)\], \[(.*)\]\)$', ans)
        if not m:
            raise MachineryError(f'cannot parse C05 status for {n}: {ans[:300]}')
        snd, cmpl, ntu, closes_l, reads = m.groups()
        closes_v = [x.strip() == 'true' for x in closes_l.split(';')]
        reads_v = [re.findall(r'V([FNBT])', x) for x in re.findall(r'\[([^\[\]]*)\]', reads)]
        model_closes[n] = (closes_v, reads_v)
        for nm, val, term in (('sound', snd, f'closure_sound {t} {hd} {kl}'),
                              ('complete', cmpl, f'closure_complete {t} {hd} {kl}')):
            ok = val == 'None'
            chk.obligation(f'{n}:closure_{nm}', ok)
            if ok:
                ob.append(f'Lemma obl_{i}_{nm} : {term} = None.\nProof. vm_compute. reflexivity. Qed.')
            else:
                ob.append(f'Lemma ref_{i}_{nm} : exists w, {term} = Some w.\nProof. eexists. vm_compute. reflexivity. Qed.')
                chk.violation(f'closure:{n}:{nm}',
                              f'{n}: closure patterns {ks} are not {nm} for the documented tables: witness {val}',
                              dict(kind='closure_obligation', logic=n, direction=nm, witness=val, obligation=term))
        if any(c in SPECIAL for c in L['closure']):
            ok = ntu == 'true'
            chk.obligation(f'{n}:identity_existence_literals', ok)
            if ok:
                ob.append(f'Lemma obl_{i}_idex : neg_true_undesignated {t} = true.\nProof. vm_compute. reflexivity. Qed.')
            else:
                chk.violation(f'closure:{n}:identity-existence', f'{n}: ~a=a / ~E!a closure is unsound: negation of T is designated',
                              dict(kind='closure_obligation', logic=n, obligation=f'neg_true_undesignated {t}'), found_input=False)
    write_if_changed(g / 'Obl.v', '\n'.join(ob) + '\n')
    rc, out = coqc(g / 'Obl.v')
    if rc:
        raise MachineryError('generated Obl.v does not compile:\n' + out[-3000:])

    # ---- correspondence: the same literal sets on real branches -------------------
    byname = {L['name']: L for L in logics}
    order_des = [(a, b, c, d) for a in (False, True) for b in (False, True) for c in (False, True) for d in (False, True)]
    order_nod = [(a, c) for a in (False, True) for c in (False, True)]
    for rec in cases:
        n = rec['logic']
        L = byname[n]
        chk.count('subject', rec['subject'])
        nontriv = len(rec['lits']) >= 2
        chk.case([n, rec['subject'], rec['world'], rec['lits'], rec.get('build'), rec.get('copies')], nontrivial=nontriv,
                 sample=rec if nontriv and rec.get('value') else None)
        if 'error' in rec:
            chk.violation(f'closure-run:{n}:exception', f"{n}: literal set {rec['lits']} on {rec['subject']} raised {rec['error']}",
                          dict(kind='closure_case', **rec))
            continue
        if rec.get('cross'):
            # literals of one subject at two worlds: the branch closes iff the literals of ONE world match a pattern
            closes_v, reads_v = model_closes[n]
            def idx_of(lits):
                l = lits_of(dict(lits=lits, has_des=rec['has_des']))
                return (order_des.index((l['lpp'], l['lpm'], l['lnp'], l['lnm'])) if L['has_designation']
                        else order_nod.index((l['lpp'], l['lnp'])))
            i0, i1 = idx_of(rec['lits0']), idx_of(rec['lits1'])
            want = closes_v[i0] or closes_v[i1]
            if rec['subject'] == 'exist':
                want = want or any(neg for neg, _ in rec['lits'])         # ~E!a closes at any world
            if rec['closed'] != want or rec['branches'] != 1:
                chk.violation(f'closure-run:{n}:cross-world:{rec["subject"]}',
                              f"{n}: {rec['subject']} literals {rec['lits0']} at world 0 and {rec['lits1']} at world 1: "
                              f"branch closed={rec['closed']}, per-world closure patterns say {want}",
                              dict(kind='closure_case', expected_closed=want, **rec))
            elif not rec['closed'] and rec['subject'] in ('atom', 'pred'):
                for wv, ix in zip(rec.get('values') or [], (i0, i1)):
                    if not reads_v[ix] or wv != reads_v[ix][0]:
                        chk.violation(f'closure-run:{n}:cross-world:read-value',
                                      f"{n}: {rec['subject']} literals {rec['lits0']}@0 {rec['lits1']}@1: model reads {rec.get('values')}, "
                                      f"modelled read-off {reads_v[i0]} / {reads_v[i1]}", dict(kind='closure_case', **rec))
                        break
            continue
        if rec.get('subject') == 'identity-twin':
            if not rec.get('closed'):
                chk.violation(f'closure-run:{n}:identity-twin',
                              f"{n}: ~ c = c with two equal but distinct constant objects (distinct={rec.get('twin_distinct_objects')}): closed={rec.get('closed')}",
                              dict(kind='closure_case', **rec))
            continue
        if rec.get('special'):
            neg = rec['lits'][0][0]
            if rec['closed'] != neg:
                chk.violation(f'closure-run:{n}:{rec["subject"]}', f"{n}: {'~' if neg else ''}{rec['subject']} literal: closed={rec['closed']}",
                              dict(kind='closure_case', **rec))
            elif not neg and rec.get('value') != 'T':
                chk.violation(f'closure-run:{n}:{rec["subject"]}:value', f"{n}: open {rec['subject']} literal evaluates to {rec.get('value')}",
                              dict(kind='closure_case', **rec))
            continue
        l = lits_of(rec)
        closes_v, reads_v = model_closes[n]
        if L['has_designation']:
            idx = order_des.index((l['lpp'], l['lpm'], l['lnp'], l['lnm']))
        else:
            idx = order_nod.index((l['lpp'], l['lnp']))
        want_closed = closes_v[idx]
        if rec['closed'] != want_closed or rec['branches'] != 1:
            chk.violation(f'closure-run:{n}:closed-mismatch' + ('' if rec.get('copies', 1) == 1 and rec.get('build', 'sdw') == 'sdw' else f":{rec.get('build')}x{rec.get('copies')}"),
                          f"{n}: literal set {rec['lits']} on {rec['subject']}@{rec['world']}: branch closed={rec['closed']}, closure patterns say {want_closed}",
                          dict(kind='closure_case', expected_closed=want_closed, **rec))
            continue
        if not rec['closed'] and rec['lits']:
            rv = reads_v[idx]
            if not rv or rec.get('value') != rv[0] or not all(rec.get('sat', [])):
                chk.violation(f'closure-run:{n}:read-value' + ('' if rec.get('copies', 1) == 1 and rec.get('build', 'sdw') == 'sdw' else f":{rec.get('build')}x{rec.get('copies')}"),
                              f"{n}: open literal set {rec['lits']} on {rec['subject']}: model reads {rec.get('value')} "
                              f"(node satisfaction {rec.get('sat')}), modelled read-off {rv}",
                              dict(kind='closure_case', expected_value=rv, **rec))
    chk.exhaustive = True
    chk.assumptions = props_assumptions('C05')
    chk.theorems = ['C05_closure_sound', 'C05_closure_complete', 'C05_all_literal_sets']
    chk.rule = ('obligations: per logic closure_sound / closure_complete (all 16 literal subsets x all values, kernel-decided) '
                '+ identity/existence literals; correspondence (complete): every subset on a real branch for S in '
                '{atom, predication, opaque sentences}, with and without worlds: Branch.closed and the value the real model '
                'reads off vs the model; non-trivial = subsets with >= 2 literals')
    chk.checker_cmd = 'coqc gen/C05/{Status*,Obl}.v against coq/theories/Sem/Closure.v, Props/C05.v'
    chk.trusted += ['Sem/Closure.v closure patterns and read_vals (hand-modelled from rules.FindClosingNodeRule subclasses and BaseModel._read_node; compared with the real branch/model on every literal subset each run)',
                    'Sem/Lit.v documented tables']
    chk.notes['explanation'] = ('closure_sound: a literal set matched by one of the logic\'s closure patterns has no satisfying value; '
                                'closure_complete: every unmatched set is satisfied by some value of the logic and the value read off by '
                                'the model builder is a single value of the logic satisfying all literals')
    return chk.finish()


def replay(path: str) -> int:
    rep = json.load(open(path))
    class A: pass
    a = A(); a.tier = rep.get('tier', 'quick'); a.seed = rep.get('seed', 0)
    return run(a)
