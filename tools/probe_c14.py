"""C14 probe: runs inside the implementation's interpreter; prints JSON only.

usage: probe_c14.py tables | compare | immut | cache     (input on stdin as JSON)

Item JSON: ["c",i,s] ["v",i,s] ["p",i,s,arity] ["q",name] ["o",name] or a sentence tree
["A",i,s] | ["P",[i,s,a],[param..]] | ["Q",qname,[vi,vs],body] | ["O",opname,[operand..]].
"""
import copy
import json
import pickle
import sys

from pytableaux.lang import (Argument, Atomic, Constant, LexType, Operated, Operator, Predicate,
                             Predicated, Quantified, Quantifier, Variable)
from pytableaux.lang import lex as lexmod
from pytableaux.lang.lex import Lexical


def syspred(spec):
    for p in Predicate.System:
        if tuple(p.spec) == tuple(spec):
            return p
    raise ValueError(spec)


def build(t):
    k = t[0]
    if k == 'c':
        return Constant(t[1], t[2])
    if k == 'v':
        return Variable(t[1], t[2])
    if k == 'p':
        return syspred(t[1:]) if t[1] < 0 else Predicate(t[1], t[2], t[3])
    if k == 'q':
        return Quantifier[t[1]]
    if k == 'o':
        return Operator[t[1]]
    if k == 'A':
        return Atomic(t[1], t[2])
    if k == 'P':
        return Predicated(build(['p', *t[1]]), tuple(build(p) for p in t[2]))
    if k == 'Q':
        return Quantified(Quantifier[t[1]], Variable(*t[2]), build(t[3]))
    if k == 'O':
        return Operated(Operator[t[1]], tuple(build(x) for x in t[2]))
    raise ValueError(k)


def tree(x):
    ty = type(x)
    if ty is Constant:
        return ['c', x.index, x.subscript]
    if ty is Variable:
        return ['v', x.index, x.subscript]
    if ty is Predicate:
        return ['p', x.index, x.subscript, x.arity]
    if ty is Quantifier:
        return ['q', x.name]
    if ty is Operator:
        return ['o', x.name]
    if ty is Atomic:
        return ['A', x.index, x.subscript]
    if ty is Predicated:
        return ['P', list(x.predicate.spec), [tree(p) for p in x.params]]
    if ty is Quantified:
        return ['Q', x.quantifier.name, list(x.variable.spec), tree(x.sentence)]
    if ty is Operated:
        return ['O', x.operator.name, [tree(s) for s in x.operands]]
    return {'other': ty.__name__}


def guard(f):
    try:
        return f()
    except Exception as e:
        return {'err': type(e).__name__}


def tables():
    cache = type(Constant).__call__._cache
    return dict(
        ranks=dict(lexmod._Ranks),
        lextype_ranks={m.name: m.rank for m in LexType},
        maxi={m.name: m.maxi for m in LexType},
        quantifiers=[[q.name, q.order, list(q.sort_tuple)] for q in Quantifier],
        operators=[[o.name, o.order, o.arity, list(o.sort_tuple)] for o in Operator],
        system=sorted([p.name, *p.spec] for p in Predicate.System),
        cache_maxlen=cache.queue.maxlen)


def compare(data):
    items = [build(t) for t in data['items']]
    out = dict(sort_tuples=[list(x.sort_tuple) for x in items],
               back=[tree(x) for x in items], pairs=[], sorted=[], args=[])
    for i, j in data['pairs']:
        a, b = items[i], items[j]
        out['pairs'].append(guard(lambda: [
            Lexical.orderitems(a, b), a == b, a != b, a < b, a <= b, a > b, a >= b,
            hash(a) == hash(b), a.hash == hash(a)]))
    for idxs in data['lists']:
        out['sorted'].append(guard(lambda: [tree(x) for x in sorted(items[i] for i in idxs)]))
    args = []
    for a in data['arguments']:
        args.append(Argument(items[a['c']], tuple(items[i] for i in a['p']), title=a.get('t')))
    for i, j in data['argpairs']:
        a, b = args[i], args[j]
        out['args'].append(guard(lambda: [a == b, a < b, a <= b, a > b, a >= b, hash(a) == hash(b)]))
    return out


def all_slots(x):
    names = []
    for c in type(x).__mro__:
        s = c.__dict__.get('__slots__', ())
        if isinstance(s, str):
            s = (s,)
        for n in s:
            if n not in names:
                names.append(n)
    return names


def immut(data):
    out = []
    for t in data['items']:
        x = build(t)
        st0, h0, id0, sp0 = tuple(x.sort_tuple), hash(x), x.ident, x.spec
        slots = []
        for n in all_slots(x):
            had = hasattr(x, n)
            before = getattr(x, n, None)
            sr = dr = False
            try:
                setattr(x, n, 12345)
            except Exception:
                sr = True
            try:
                delattr(x, n)
            except Exception:
                dr = True
            same = (hasattr(x, n) == had) and (not had or getattr(x, n) is before or getattr(x, n) == before)
            slots.append([n, had, sr, dr, same])
            if not same:                     # undo, so that later observations start from the original item
                try:
                    if had:
                        setattr(x, n, before)
                    else:
                        delattr(x, n)
                except Exception:
                    try:
                        object.__setattr__(x, n, before) if had else object.__delattr__(x, n)
                    except Exception:
                        pass
        try:
            x.brand_new_attribute = 1
            newattr = False
        except Exception:
            newattr = True
        y = build(t)
        after = (tuple(x.sort_tuple) == st0 and hash(x) == h0 and x.ident == id0 and x.spec == sp0
                 and x == y and tree(x) == t)
        cp = guard(lambda: [copy.copy(x) == x, copy.copy(x) is x, copy.deepcopy(x) == x,
                            pickle.loads(pickle.dumps(x)) == x,
                            tree(pickle.loads(pickle.dumps(x))) == t,
                            hash(pickle.loads(pickle.dumps(x))) == hash(x)])
        out.append(dict(slots=slots, newattr_raises=newattr, after_ok=after, copies=cp))
    # arguments
    argout = []
    for a in data.get('arguments', ()):
        arg = Argument(build(a['c']), tuple(build(p) for p in a['p']), title=a.get('t'))
        h0 = hash(arg)
        res = []
        for n in ('seq', 'premises', 'title', '_hash'):
            sr = dr = False
            try:
                setattr(arg, n, ())
            except Exception:
                sr = True
            try:
                delattr(arg, n)
            except Exception:
                dr = True
            res.append([n, sr, dr])
        # re-running the initialiser on an existing argument (another conclusion, no premises) must not change it
        from pytableaux.lang import Atomic
        other = Atomic(4, 3)
        for how in ('method', 'class'):
            try:
                if how == 'method':
                    arg.__init__(other, ())
                else:
                    Argument.__init__(arg, other, (), title='x')
                sr = False
            except Exception:
                sr = True
            res.append([f'__init__ again ({how})', sr or [tree(s) for s in arg] == [a['c'], *a['p']], True])
        ok = guard(lambda: [hash(arg) == h0, copy.copy(arg) == arg, copy.deepcopy(arg) == arg,
                            pickle.loads(pickle.dumps(arg)) == arg,
                            [tree(s) for s in arg] == [a['c'], *a['p']]])
        argout.append(dict(slots=res, ok=ok))
    return dict(items=out, arguments=argout)


CLASSES = {n: getattr(lexmod, n) for n in (
    'Predicate', 'Constant', 'Variable', 'Quantifier', 'Operator', 'Atomic', 'Predicated',
    'Quantified', 'Operated', 'Parameter', 'Sentence', 'CoordsItem', 'LexicalAbc')}


def cache_run(data):
    cache = type(Constant).__call__._cache
    results = []
    npre = len(data['pre'])

    def val(v):
        if 'i' in v:
            return v['i']
        if 's' in v:
            return v['s']
        if 't' in v:
            return tuple(val(x) for x in v['t'])
        if 'ref' in v:
            return results[npre + v['ref']]
        if 'sys' in v:
            return Predicate.System[v['sys']]
        if 'enum' in v:
            return (Quantifier if v['enum'][0] == 'Quantifier' else Operator)[v['enum'][1]]
        raise ValueError(v)

    out = []
    for op in data['pre'] + data['ops']:
        try:
            r = CLASSES[op['cls']](*[val(a) for a in op['args']])
            results.append(r)
            rj = tree(r)
        except Exception as e:
            results.append(None)
            rj = {'err': type(e).__name__, 'msg': str(e)[:80]}
        out.append(dict(r=rj, q=[tree(x) for x in cache.queue]))
    return dict(maxlen=cache.queue.maxlen, trace=out[len(data['pre']):],
                consistent=guard(lambda: [len(cache.rev) == len(cache.queue),
                                          all(k in cache.idx for ks in cache.rev.values() for k in ks),
                                          len(cache.queue) <= cache.queue.maxlen,
                                          set(cache.idx) == set().union(*cache.rev.values()),
                                          set(cache.rev) == set(cache.queue)]))


def main():
    mode = sys.argv[1]
    if mode == 'tables':
        res = tables()
    else:
        data = json.load(sys.stdin)
        res = dict(compare=compare, immut=immut, cache=cache_run)[mode](data)
    json.dump(res, sys.stdout)


main()
