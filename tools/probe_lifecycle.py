"""Runs in the implementation's interpreter (C17): drives real Tableau objects through operation
sequences and prints what they report after every call.  Decides nothing.

stdin JSON: {"cases": [{"logic", "arg", "opts": {max_steps, build_timeout, is_build_models,
                        auto_build_trunk}, "ops": [op...]}...]}
  op: ["step", fire_step, fire_models] | ["finish", fire_models] | ["build", k|null, fire_models]
      | ["set_argument"] | ["set_logic"] | ["build_trunk"] | ["add_rule"] | ["hand_branch"]
  hand_branch is  b = tab.branch(); b.append(node)  with one node carrying the conjunction a & b and
  the properties the case's logic needs (designated=True iff its rules carry designation markers,
  world=0 iff Meta.modal), whether or not the tableau has that logic (yet).
  fire_* ask the substituted build timer to report a huge elapsed time at that consultation (k: at
  the k-th consultation made by step() during this call); with all of them false the timer reports
  the real elapsed time.
stdout JSON: {"cases": [{"n", "closes", "nrules", "h", "hand_ok", "hand", "measure_error", "trace": [{"res", "consults":
  [[who, value, bit]...], "obs": {...}}...]}...]}
  n / closes / nrules are measured first on a separate unlimited tableau of the same logic and
  argument (node hash counter reset before each construction so that both runs search alike).
  h = number of rule applications one hand-made branch supplies in that logic (tableau with the
  logic, no argument, one hand-made branch, build); hand_ok = the branch stays open and two such
  branches supply exactly 2h (measured with max_steps=60), and for this argument the proof has n + h,
  n + h, n + 2h steps and the same open trunk branches when one hand-made branch is made before / after
  / before and after the trunk (hand_ctx; the search order depends on node hashes, so n may depend on how
  many nodes were made earlier); hand = the raw per-logic measurements.
"""
import json
import sys


def main():
    from pytableaux.lang import Argument, Atomic, Operator
    from pytableaux.logics import registry
    from pytableaux.proof import Tableau, common, sdwnode
    from pytableaux.proof.rules import NoopRule
    from pytableaux.tools.timing import StopWatch
    req = json.load(sys.stdin)
    BIG = 10 ** 12
    Flag = Tableau.Flag

    class ExtraRule(NoopRule):
        "A rule that never applies (does not change the proof search)."

    class ScriptedWatch(StopWatch):
        __slots__ = ('plan', 'log', 'timeout')

        def elapsed_ms(self):
            real = StopWatch.elapsed_ms(self)
            try:
                who = sys._getframe(2).f_code.co_name
                chk = sys._getframe(1).f_code.co_name
            except ValueError:
                who, chk = '?', '?'
            if chk != '_check_timeout':
                return real
            who = 'step' if who == 'step' else 'models'
            plan = self.plan
            fire = False
            if who == 'step':
                idx = sum(1 for c in self.log if c[0] == 'step')
                fire = plan.get('step_at') is not None and idx == plan['step_at']
            else:
                fire = bool(plan.get('models'))
            val = real + (BIG if fire else 0)
            self.log.append([who, val, bool(val > self.timeout)])
            return val

    def reset(start=0):
        try:
            common._verif_serial[0] = start
        except AttributeError:
            pass

    def observe(tab):
        f = tab.flag
        return dict(PREMATURE=Flag.PREMATURE in f, FINISHED=Flag.FINISHED in f, TIMED_OUT=Flag.TIMED_OUT in f,
                    TRUNK_BUILT=Flag.TRUNK_BUILT in f, STARTED=Flag.STARTED in f,
                    HAS_STEP_LIMIT=Flag.HAS_STEP_LIMIT in f, HAS_TIME_LIMIT=Flag.HAS_TIME_LIMIT in f,
                    finished=tab.finished, completed=tab.completed, premature=tab.premature,
                    valid=tab.valid, invalid=tab.invalid, locked=bool(tab.rules.locked),
                    hist=len(tab.history), nrules=len(tab.rules), has_arg=tab.argument is not None,
                    has_logic=tab.logic is not None, nopen=len(tab.open), nbranches=len(tab),
                    result=(tab.stats or {}).get('result') if Flag.FINISHED in f else None)

    conj = Operator.Conjunction(Atomic(0, 0), Atomic(1, 0))

    def hand_node(logic):
        lg = registry(logic)
        has_des = any(getattr(r, 'designation', None) is not None for g in lg.Rules.groups for r in g)
        return sdwnode(conj, True if has_des else None, 0 if lg.Meta.modal else None)

    def hand_branch(tab, logic):
        b = tab.branch()
        b.append(hand_node(logic))
        return b

    hand_measured = {}
    ctx_measured = {}

    def measure_hand(logic):
        if logic not in hand_measured:
            m = dict(h=None, ok=False)
            try:
                runs = []
                for k in (1, 2):
                    reset()
                    t = Tableau(logic, max_steps=60)
                    bs = [hand_branch(t, logic) for _ in range(k)]
                    mid = Flag.STARTED in t.flag or Flag.TRUNK_BUILT in t.flag or not t.rules.locked
                    t.build()
                    runs.append(dict(steps=len(t.history), premature=bool(t.premature), nopen=len(t.open), nbranches=len(t),
                                     rules=[e.rule.name for e in t.history][:8], flags_before_step_wrong=bool(mid),
                                     started=Flag.STARTED in t.flag, trunk=Flag.TRUNK_BUILT in t.flag))
                m['runs'] = runs
                m['h'] = runs[0]['steps']
                m['ok'] = bool(not runs[0]['premature'] and not runs[1]['premature'] and runs[1]['steps'] == 2 * runs[0]['steps']
                               and runs[0]['nopen'] == runs[0]['nbranches'] == 1 and runs[1]['nopen'] == runs[1]['nbranches'] == 2)
            except Exception as e:  # noqa
                m['error'] = f'{type(e).__name__}: {e}'[:200]
            hand_measured[logic] = m
        return hand_measured[logic]

    out = []
    measured = {}
    for case in req['cases']:
        rec = dict(n=None, closes=None, nrules=None, measure_error=None, trace=[])
        out.append(rec)
        logic, arg, opts = case['logic'], case['arg'], dict(case.get('opts') or {})
        if (logic, arg) not in measured:
            try:
                reset()
                t0 = Tableau(logic, Argument(arg), max_steps=400).build()
                measured[logic, arg] = (len(t0.history) if not t0.premature else None, bool(t0.valid), len(t0.rules), None, len(t0.open))
            except Exception as e:  # noqa
                measured[logic, arg] = (None, None, None, f'{type(e).__name__}: {e}'[:200], None)
        rec['n'], rec['closes'], rec['nrules'], rec['measure_error'] = measured[logic, arg][:4]
        hm = measure_hand(logic)
        rec['h'], rec['hand_ok'], rec['hand'] = hm['h'], hm['ok'], hm
        if hm['ok'] and rec['n'] is not None:
            # the trunk's proof must have its length n whatever hand-made branches surround it (the search
            # order depends on node hashes, hence on how many nodes were made before): three canonical contexts
            if (logic, arg) not in ctx_measured:
                cm = dict(ok=False, totals=[])
                try:
                    for pre, post in ((1, 0), (0, 1), (1, 1)):
                        reset()
                        t = Tableau(logic, max_steps=400 + 2 * hm['h'])
                        for _ in range(pre):
                            hand_branch(t, logic)
                        t.argument = Argument(arg)
                        for _ in range(post):
                            hand_branch(t, logic)
                        t.build()
                        cm['totals'].append([len(t.history), bool(t.premature), len(t.open) - pre - post])
                    n0, open0 = measured[logic, arg][0], measured[logic, arg][4]
                    # ... and must not depend on where the node-hash counter starts
                    cm['offsets'] = []
                    for off in range(1, 6):
                        reset(off)
                        t = Tableau(logic, Argument(arg), max_steps=400).build()
                        cm['offsets'].append([len(t.history), bool(t.premature), len(t.open)])
                    cm['ok'] = all(x == [n0, False, open0] for x in cm['offsets']) and all(tot == n0 + (pre + post) * hm['h'] and not prem and o == open0
                                   for (tot, prem, o), (pre, post) in zip(cm['totals'], ((1, 0), (0, 1), (1, 1))))
                except Exception as e:  # noqa
                    cm['error'] = f'{type(e).__name__}: {e}'[:200]
                ctx_measured[logic, arg] = cm
            rec['hand_ctx'] = ctx_measured[logic, arg]
            rec['hand_ok'] = bool(ctx_measured[logic, arg]['ok'])
        if rec['n'] is None:
            rec['measure_error'] = rec['measure_error'] or 'longer than 400 steps'
            continue
        reset()
        tab = Tableau(**opts)
        watch = ScriptedWatch()
        watch.plan = {}
        watch.log = []
        to = opts.get('build_timeout')
        watch.timeout = to if to is not None else float('inf')
        tab.timers = tab.timers._replace(build=watch)
        rec['init'] = observe(tab)
        for op in case['ops']:
            watch.log = []
            watch.plan = {}
            kind = op[0]
            res = None
            try:
                if kind == 'step':
                    watch.plan = dict(step_at=0 if op[1] else None, models=op[2])
                    res = 'entry' if tab.step() else 'none'
                elif kind == 'finish':
                    watch.plan = dict(models=op[1])
                    tab.finish()
                    res = 'ok'
                elif kind == 'build':
                    watch.plan = dict(step_at=op[1], models=op[2])
                    tab.build()
                    res = 'ok'
                elif kind == 'set_argument':
                    tab.argument = Argument(arg)
                    res = 'ok'
                elif kind == 'set_logic':
                    tab.logic = logic
                    res = 'ok'
                elif kind == 'build_trunk':
                    tab.build_trunk()
                    res = 'ok'
                elif kind == 'add_rule':
                    tab.rules.append(ExtraRule)
                    res = 'ok'
                elif kind == 'hand_branch':
                    hand_branch(tab, logic)
                    res = 'ok'
                else:
                    res = 'bad-op'
            except Exception as e:  # noqa
                res = 'err:' + type(e).__name__
            rec['trace'].append(dict(res=res, consults=watch.log, obs=observe(tab)))
    # two behaviours the model is parametrised by (read from the code, never assumed)
    flags = {}
    try:
        t = Tableau('CPL')
        t.build()
        try:
            t.argument = Argument('a:a')
            flags['fin_lock'] = False
        except Exception as e:  # noqa
            flags['fin_lock'] = type(e).__name__ == 'IllegalStateError'
        t = Tableau(None, Argument('b:a'))
        t.build()
        flags['trunk_verdict'] = t.valid is None and t.invalid is None
    except Exception as e:  # noqa
        flags['error'] = f'{type(e).__name__}: {e}'[:200]
    json.dump(dict(cases=out, flags=flags), sys.stdout)


if __name__ == '__main__':
    main()
