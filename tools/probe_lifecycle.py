"""Runs in the implementation's interpreter (C17): drives real Tableau objects through operation
sequences and prints what they report after every call.  Decides nothing.

stdin JSON: {"cases": [{"logic", "arg", "opts": {max_steps, build_timeout, is_build_models,
                        auto_build_trunk}, "ops": [op...]}...]}
  op: ["step", fire_step, fire_models] | ["finish", fire_models] | ["build", k|null, fire_models]
      | ["set_argument"] | ["set_logic"] | ["build_trunk"] | ["add_rule"]
  fire_* ask the substituted build timer to report a huge elapsed time at that consultation (k: at
  the k-th consultation made by step() during this call); with all of them false the timer reports
  the real elapsed time.
stdout JSON: {"cases": [{"n", "closes", "nrules", "measure_error", "trace": [{"res", "consults":
  [[who, value, bit]...], "obs": {...}}...]}...]}
  n / closes / nrules are measured first on a separate unlimited tableau of the same logic and
  argument (node hash counter reset before each construction so that both runs search alike).
"""
import json
import sys


def main():
    from pytableaux.lang import Argument
    from pytableaux.proof import Tableau, common
    from pytableaux.proof.rules import NoopRule
    from pytableaux.tools.timing import StopWatch
    req = json.load(sys.stdin)
    BIG = 10 ** 12
    Flag = Tableau.Flag

    class ExtraRule(NoopRule):
        "A rule that never applies (does not change the proof search)."

    class ScriptedWatch(StopWatch):
        __slots__ = ('plan', 'log', 'timeout')

        def elapsed_ms(self):
            real = StopWatch.elapsed_ms(self)
            try:
                who = sys._getframe(2).f_code.co_name
                chk = sys._getframe(1).f_code.co_name
            except ValueError:
                who, chk = '?', '?'
            if chk != '_check_timeout':
                return real
            who = 'step' if who == 'step' else 'models'
            plan = self.plan
            fire = False
            if who == 'step':
                idx = sum(1 for c in self.log if c[0] == 'step')
                fire = plan.get('step_at') is not None and idx == plan['step_at']
            else:
                fire = bool(plan.get('models'))
            val = real + (BIG if fire else 0)
            self.log.append([who, val, bool(val > self.timeout)])
            return val

    def reset():
        try:
            common._verif_serial[0] = 0
        except AttributeError:
            pass

    def observe(tab):
        f = tab.flag
        return dict(PREMATURE=Flag.PREMATURE in f, FINISHED=Flag.FINISHED in f, TIMED_OUT=Flag.TIMED_OUT in f,
                    TRUNK_BUILT=Flag.TRUNK_BUILT in f, STARTED=Flag.STARTED in f,
                    HAS_STEP_LIMIT=Flag.HAS_STEP_LIMIT in f, HAS_TIME_LIMIT=Flag.HAS_TIME_LIMIT in f,
                    finished=tab.finished, completed=tab.completed, premature=tab.premature,
                    valid=tab.valid, invalid=tab.invalid, locked=bool(tab.rules.locked),
                    hist=len(tab.history), nrules=len(tab.rules), has_arg=tab.argument is not None,
                    has_logic=tab.logic is not None, nopen=len(tab.open), nbranches=len(tab))

    out = []
    measured = {}
    for case in req['cases']:
        rec = dict(n=None, closes=None, nrules=None, measure_error=None, trace=[])
        out.append(rec)
        logic, arg, opts = case['logic'], case['arg'], dict(case.get('opts') or {})
        if (logic, arg) not in measured:
            try:
                reset()
                t0 = Tableau(logic, Argument(arg), max_steps=400).build()
                measured[logic, arg] = (len(t0.history) if not t0.premature else None, bool(t0.valid), len(t0.rules), None)
            except Exception as e:  # noqa
                measured[logic, arg] = (None, None, None, f'{type(e).__name__}: {e}'[:200])
        rec['n'], rec['closes'], rec['nrules'], rec['measure_error'] = measured[logic, arg]
        if rec['n'] is None:
            rec['measure_error'] = rec['measure_error'] or 'longer than 400 steps'
            continue
        reset()
        tab = Tableau(**opts)
        watch = ScriptedWatch()
        watch.plan = {}
        watch.log = []
        to = opts.get('build_timeout')
        watch.timeout = to if to is not None else float('inf')
        tab.timers = tab.timers._replace(build=watch)
        rec['init'] = observe(tab)
        for op in case['ops']:
            watch.log = []
            watch.plan = {}
            kind = op[0]
            res = None
            try:
                if kind == 'step':
                    watch.plan = dict(step_at=0 if op[1] else None, models=op[2])
                    res = 'entry' if tab.step() else 'none'
                elif kind == 'finish':
                    watch.plan = dict(models=op[1])
                    tab.finish()
                    res = 'ok'
                elif kind == 'build':
                    watch.plan = dict(step_at=op[1], models=op[2])
                    tab.build()
                    res = 'ok'
                elif kind == 'set_argument':
                    tab.argument = Argument(arg)
                    res = 'ok'
                elif kind == 'set_logic':
                    tab.logic = logic
                    res = 'ok'
                elif kind == 'build_trunk':
                    tab.build_trunk()
                    res = 'ok'
                elif kind == 'add_rule':
                    tab.rules.append(ExtraRule)
                    res = 'ok'
                else:
                    res = 'bad-op'
            except Exception as e:  # noqa
                res = 'err:' + type(e).__name__
            rec['trace'].append(dict(res=res, consults=watch.log, obs=observe(tab)))
    # two behaviours the model is parametrised by (read from the code, never assumed)
    flags = {}
    try:
        t = Tableau('CPL')
        t.build()
        try:
            t.argument = Argument('a:a')
            flags['fin_lock'] = False
        except Exception as e:  # noqa
            flags['fin_lock'] = type(e).__name__ == 'IllegalStateError'
        t = Tableau(None, Argument('b:a'))
        t.build()
        flags['trunk_verdict'] = t.valid is None and t.invalid is None
    except Exception as e:  # noqa
        flags['error'] = f'{type(e).__name__}: {e}'[:200]
    json.dump(dict(cases=out, flags=flags), sys.stdout)


if __name__ == '__main__':
    main()
