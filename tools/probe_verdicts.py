"""Runs in the implementation's interpreter.  For each job builds the argument
(optionally renamed / with permuted, duplicated or extended premises) under a
list of configurations (options, one-shot build vs step loop) and reports only
the outcome class.
stdin: {jobs: [{logic, example|argstr|premises+conclusion (strees), rename?: {atoms,consts,preds,vars: {str(i): j}},
                extra?: stree, configs: [{opts, mode, prems: orig|rev|dup}] }]}"""
from __future__ import annotations
import json, sys
import probe_rules as pr


def reset_serial():
    "Hook: restart the node-hash counter so that a tableau's tie-break order does not depend on earlier jobs in this process."
    try:
        from pytableaux.proof import common
        common._verif_serial[0] = 0
    except Exception:
        pass


def main():
    registry = pr.setup()
    from pytableaux import examples
    from pytableaux.lang import (Argument, Atomic, Constant, Operated, Operator, Predicate, Predicated,
                                 Quantified, Quantifier, Variable)
    from pytableaux.proof import Tableau

    ATOM_W = Atomic.TYPE.maxi + 1
    VAR_W = Variable.TYPE.maxi + 1

    def build(t):
        k = t[0]
        if k == 'A':
            return Atomic(t[1] % ATOM_W, t[1] // ATOM_W)
        if k in ('U', 'M'):
            return Operator[t[1]](build(t[2]))
        if k == 'B':
            return Operator[t[1]](build(t[2]), build(t[3]))
        if k == 'Q':
            return Quantified(Quantifier[t[1]], Variable(t[2] % VAR_W, t[2] // VAR_W), build(t[3]))
        if k == 'P':
            ps = tuple(Constant(p[1], p[2]) if p[0] == 'c' else Variable(p[1], p[2]) for p in t[3])
            if t[1] < 0:
                pred = Predicate.Identity if t[1] == -1 else Predicate.Existence
            else:
                pred = Predicate(t[1], t[2], len(ps))
            return Predicated(pred, ps)
        raise ValueError(t)

    def rename_tree(t, rn):
        "Renaming at the level of the input tree (independent of how the built items compare or hash)."
        k = t[0]
        if k == 'A':
            j = rn['atoms'].get(f'{t[1] % ATOM_W},{t[1] // ATOM_W}')
            return ['A', j[1] * ATOM_W + j[0]] if j else t
        if k in ('U', 'M'):
            return [k, t[1], rename_tree(t[2], rn)]
        if k == 'B':
            return [k, t[1], rename_tree(t[2], rn), rename_tree(t[3], rn)]
        if k == 'Q':
            j = rn['vars'].get(f'{t[2] % VAR_W},{t[2] // VAR_W}')
            return [k, t[1], (j[1] * VAR_W + j[0]) if j else t[2], rename_tree(t[3], rn)]
        if k == 'P':
            ps = []
            for q in t[3]:
                j = rn['consts' if q[0] == 'c' else 'vars'].get(f'{q[1]},{q[2]}')
                ps.append([q[0], j[0], j[1]] if j else q)
            if t[1] >= 0:
                j = rn['preds'].get(f'{t[1]},{t[2]},{len(ps)}')
                if j:
                    return ['P', j[0], j[1], ps]
            return ['P', t[1], t[2], ps]
        raise ValueError(t)

    def rename(s, rn):
        tn = type(s).__name__
        if tn == 'Atomic':
            j = rn['atoms'].get(f'{s.index},{s.subscript}')
            return Atomic(*j) if j else s
        if tn == 'Predicated':
            p = s.predicate
            if p.index >= 0:
                j = rn['preds'].get(f'{p.index},{p.subscript},{p.arity}')
                if j:
                    p = Predicate(j[0], j[1], p.arity)
            ps = []
            for x in s.params:
                if type(x).__name__ == 'Constant':
                    j = rn['consts'].get(f'{x.index},{x.subscript}')
                    ps.append(Constant(*j) if j else x)
                else:
                    j = rn['vars'].get(f'{x.index},{x.subscript}')
                    ps.append(Variable(*j) if j else x)
            return Predicated(p, tuple(ps))
        if tn == 'Operated':
            return s.operator(*(rename(x, rn) for x in s))
        if tn == 'Quantified':
            v = s.variable
            j = rn['vars'].get(f'{v.index},{v.subscript}')
            return Quantified(s.quantifier, Variable(*j) if j else v, rename(s.sentence, rn))
        raise ValueError(s)

    def outcome(logic, concl, prems, opts, mode, timeout_ms):
        try:
            o = dict(opts or {})
            o.setdefault('build_timeout', timeout_ms)
            reset_serial()
            tab = Tableau(logic, Argument(concl, prems), **o)
            if mode == 'step':
                n = 0
                while tab.step():
                    n += 1
            else:
                tab.build()
            if tab.valid:
                cls = 'valid'
            elif tab.invalid:
                free = [b for b in tab.open if not any('flag' in n for n in b)]
                cls = 'invalid' if free and not tab.premature else 'limited'
            else:
                cls = 'limited'
            return dict(cls=cls, steps=len(tab.history), branches=len(tab))
        except Exception as e:
            if type(e).__name__ == 'ProofTimeoutError':
                return dict(cls='timeout')
            return dict(cls=f'error:{type(e).__name__}', detail=str(e)[:200])

    def run(job):
        logic = registry(job['logic'])
        res = dict(id=job.get('id'), logic=logic.Meta.name)
        try:
            if 'example' in job:
                arg = examples.arguments[job['example']]
                prems, concl = list(arg.premises), arg.conclusion
            elif 'argstr' in job:
                arg = Argument(job['argstr'])
                prems, concl = list(arg.premises), arg.conclusion
            else:
                pt, ct = job['premises'], job['conclusion']
                if job.get('rename'):
                    pt = [rename_tree(p, job['rename']) for p in pt]
                    ct = rename_tree(ct, job['rename'])
                prems = [build(p) for p in pt]
                concl = build(ct)
            if job.get('rename') and 'premises' not in job:
                prems = [rename(p, job['rename']) for p in prems]
                concl = rename(concl, job['rename'])
            if job.get('extra') is not None:
                if job.get('extra_front'):
                    prems = [build(job['extra'])] + prems
                else:
                    prems = prems + [build(job['extra'])]
            if job.get('concl_from_prems') is not None and prems:
                concl = prems[job['concl_from_prems'] % len(prems)]
            res['argstr'] = Argument(concl, prems).argstr()
            outs = []
            for cfg in job['configs']:
                pv = cfg.get('prems', 'orig')
                ps = list(prems)
                if pv == 'rev':
                    ps = ps[::-1]
                elif pv == 'dup' and ps:
                    ps = ps + [ps[0]]
                outs.append(outcome(logic, concl, ps, cfg.get('opts'), cfg.get('mode', 'build'), int(job.get('timeout_ms', 4000))))
            res['outcomes'] = outs
            res['ok'] = True
        except Exception as e:
            import traceback
            res.update(ok=False, error=f'{type(e).__name__}: {e}', tb=traceback.format_exc()[-600:])
        return res

    jobs = json.load(sys.stdin)['jobs']
    json.dump(dict(results=pr.fanout(jobs, run)), sys.stdout)


if __name__ == '__main__':
    main()
