"""Runs in the implementation's interpreter: evaluates o(A,B) with value_of()
on a model that assigns each value tuple to the atoms, for every logic."""
import itertools, json, sys

def main():
    from pytableaux.lang import Atomic, Operator
    from pytableaux.logics import registry
    registry.import_all()
    a, b = Atomic(0, 0), Atomic(1, 0)
    res = {}
    for modname in sorted(registry.modules):
        logic = registry(modname)
        Meta = logic.Meta
        ent = {}
        for o in Operator:
            if o not in Meta.truth_functional_operators:
                continue
            rows = []
            s = o(a) if o.arity == 1 else o(a, b)
            for inp in itertools.product(list(Meta.values), repeat=o.arity):
                try:
                    m = logic.Model()
                    for atom, v in zip((a, b), inp):
                        m.set_atomic_value(atom, v)
                    m.finish()
                    out = m.value_of(s).name
                    if Meta.modal:
                        # the tables do not depend on the world: same tuple at world 1 of a model whose world 0
                        # carries the other values (rotated), operands nested once for good measure
                        vals = list(Meta.values)
                        m = logic.Model()
                        for atom, v in zip((a, b), inp):
                            m.set_atomic_value(atom, vals[(vals.index(v) + 1) % len(vals)], world=0)
                            m.set_atomic_value(atom, v, world=1)
                        m.finish()
                        out1 = m.value_of(s, world=1).name
                        if out1 != out:
                            out = f'{out}@0/{out1}@1'
                        # operands that are themselves modal sentences: the value of the compound is the table entry for
                        # the values its components take (whatever those are)
                        Pos, Nec, Neg = Operator.Possibility, Operator.Necessity, Operator.Negation
                        for fa, fb in ((lambda z: z, Pos), (Nec, lambda z: z), (lambda z: Neg(Pos(z)), Pos), (Pos, Nec)):
                            m = logic.Model()
                            for atom, v in zip((a, b), inp):
                                m.set_atomic_value(atom, v, world=0)
                                m.set_atomic_value(atom, v, world=1)
                            m.R.add((0, 1))
                            m.finish()
                            comps = (fa(a),) if o.arity == 1 else (fa(a), fb(b))
                            if o.arity == 1 and fa(a) == a:
                                comps = (Pos(a),)
                            cv = [m.value_of(c_, world=0) for c_ in comps]
                            want = m.truth_function(o, *cv).name
                            got = m.value_of(o(*comps), world=0).name
                            if got != want:
                                out = f'{out}; {o.name}{tuple(str(c_) for c_ in comps)} with component values {[x.name for x in cv]} evaluates to {got}, table says {want}'
                                break
                except Exception as e:
                    out = f'!{type(e).__name__}'
                rows.append([[v.name for v in inp], out])
            ent[o.name] = rows
        res[Meta.name] = ent
    json.dump(res, sys.stdout)

if __name__ == '__main__':
    main()
