"""Runs inside the implementation's interpreter (PYTHONPATH=/repo, hooks on).
Prints, as JSON, the finite tables the package defines for every registered
logic: value set, designated values, unassigned value, flags, truth tables of
every truth-functional operator (complete), generaliser behaviour on every
short value list, native operators, declared extensions, access class, rule
group layout.  Nothing here decides anything; it only reads the code."""
from __future__ import annotations

import itertools
import json
import sys


def main():
    from pytableaux.lang import Operator, Quantifier
    from pytableaux.logics import registry
    registry.import_all()
    opers = list(Operator)
    res = {'operators': [dict(name=o.name, arity=o.arity) for o in opers], 'logics': []}
    for modname in sorted(registry.modules):
        logic = registry(modname)
        Meta = logic.Meta
        Model = logic.Model
        vals = [v.name for v in Meta.values]
        ent = dict(
            name=Meta.name,
            module=modname.split('.')[-1],
            values=vals,
            value_nums={v.name: float(v.value) for v in Meta.values},
            designated=sorted(v.name for v in Meta.designated_values),
            designated_repr=sorted(f'{type(v).__name__}.{v.name}' for v in Meta.designated_values),
            values_class=Meta.values.__name__,
            unassigned=Meta.unassigned_value.name,
            modal=bool(Meta.modal),
            quantified=bool(Meta.quantified),
            many_valued=bool(Meta.many_valued),
            native_operators=[o.name for o in Meta.native_operators],
            modal_operators=[o.name for o in Meta.modal_operators],
            truth_functional_operators=[o.name for o in Meta.truth_functional_operators],
            extension_of=sorted(Meta.extension_of),
            access=Model.Access.__name__,
            model_mro=[c.__module__.split('.')[-1] for c in Model.__mro__
                       if c.__module__.startswith('pytableaux.logics.')],
            rules_mro=[c.__module__.split('.')[-1] for c in logic.Rules.__mro__
                       if c.__module__.startswith('pytableaux.logics.')],
            closure=[r.name for r in logic.Rules.closure],
            groups=[[r.name for r in g] for g in logic.Rules.groups],
            has_designation=any(getattr(r, 'designation', None) is not None for g in logic.Rules.groups for r in g),
        )
        tables = {}
        for o in opers:
            if o not in Meta.truth_functional_operators:
                continue
            try:
                tt = Model.truth_table(o)
            except Exception as e:  # pragma: no cover - reported, never hidden
                tables[o.name] = dict(error=f'{type(e).__name__}: {e}')
                continue
            rows = []
            for inp, out in zip(tt.inputs, tt.outputs):
                rows.append([[v.name for v in inp], getattr(out, 'name', repr(out))])
            tables[o.name] = rows
        ent['tables'] = tables
        # the same tables asked for in the other orientation and then again in the default one
        # (a table is a function of the operator, whatever order it is listed in)
        rev = {}
        for o in opers:
            if o not in Meta.truth_functional_operators:
                continue
            try:
                t1 = Model.truth_table(o, reverse=True)
                t2 = Model.truth_table(o)
                rev[o.name] = dict(
                    reverse=[[[v.name for v in i], getattr(out, 'name', repr(out))] for i, out in zip(t1.inputs, t1.outputs)],
                    reverse_mapping=[[[v.name for v in i], getattr(out, 'name', repr(out))] for i, out in t1.mapping.items()],
                    again=[[[v.name for v in i], getattr(out, 'name', repr(out))] for i, out in zip(t2.inputs, t2.outputs)])
            except Exception as e:
                rev[o.name] = dict(error=f'{type(e).__name__}: {e}')
        ent['tables_rev'] = rev
        # The truth function as the evaluator really calls it (instance call), to tie
        # truth_table() to value_of_operated().
        m = Model()
        tf = {}
        for o in opers:
            if o not in Meta.truth_functional_operators:
                continue
            rows = []
            for inp in itertools.product(list(Meta.values), repeat=o.arity):
                try:
                    out = m.truth_function(o, *inp)
                    rows.append([[v.name for v in inp], getattr(out, 'name', repr(out))])
                except Exception as e:
                    rows.append([[v.name for v in inp], f'!{type(e).__name__}'])
            tf[o.name] = rows
        ent['truth_function'] = tf
        res['logics'].append(ent)
    json.dump(res, sys.stdout)


if __name__ == '__main__':
    main()
