#!/bin/sh
# usage: tools/try_mutant.sh <patch.diff> <check ids...>
# applies the patch to /repo, runs the checks (quick), prints their verdict lines, restores /repo.
patch="$1"; shift
cd /verif || exit 2
if [ -n "$(git -C /repo status --porcelain)" ]; then echo "/repo not clean"; exit 2; fi
git -C /repo apply "$patch" || { echo "patch does not apply"; exit 3; }
for c in "$@"; do
  out=$(./check "$c" --tier quick 2>&1); rc=$?
  echo "== $c rc=$rc"
  echo "$out" | grep -E "^VIOLATION|MACHINERY|Traceback" | head -5
  echo "$out" | grep -E "^  what:" | head -3 | cut -c1-260
  echo "$out" | tail -1 | cut -c1-160
done
git -C /repo checkout -- .
git -C /repo status --porcelain | head -3
