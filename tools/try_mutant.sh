#!/bin/sh
# usage: tools/try_mutant.sh <patch.diff> <check ids...>
# Applies the patch to a scratch worktree of /repo's HEAD (/var/tmp/vw/mutrepo, VERIF_REPO points the checks at
# it, so /repo itself stays quiet for concurrently running checks), runs the checks (quick) from a private copy of
# /verif's tools (evidence/replays/gen of /verif itself are not touched), prints their verdict lines, restores.
patch="$1"; shift
M=/var/tmp/vw/mutrepo
V=/var/tmp/vw/mutverif
[ -d "$M" ] || git -C /repo worktree add --detach "$M" HEAD >/dev/null 2>&1 || exit 2
git -C "$M" checkout -q --detach "$(git -C /repo rev-parse HEAD)" || exit 2
git -C "$M" checkout -- . ; git -C "$M" clean -fdq
mkdir -p "$V"
rsync -a --delete --exclude .git --exclude work --exclude replays --exclude seeded /verif/ "$V"/ || exit 2
git -C "$M" apply "$patch" || { echo "patch does not apply"; exit 3; }
cd "$V" || exit 2
for c in "$@"; do
  out=$(VERIF_REPO="$M" ./check "$c" --tier "${TIER:-quick}" 2>&1); rc=$?
  echo "== $c rc=$rc"
  echo "$out" | grep -E "^VIOLATION|MACHINERY|Traceback" | head -5
  echo "$out" | grep -E "^  what:" | head -3 | cut -c1-260
  echo "$out" | tail -1 | cut -c1-160
done
git -C "$M" checkout -- . ; git -C "$M" clean -fdq
