"""C06 — new constants and new worlds are always fresh.

Theorems (coq/Props/C06.v) are about the Gallina model coq/theories/Tab/Branch.v of
Branch.append/copy/new_constant/new_world and Constant.next / the order max() uses.  This driver
ties the model to /repo on every run:
  * LexType.maxi / Constant.first() are re-read and fed to the model;
  * ALL append/copy histories over a node alphabet to depth 4 (quick) / 5 (thorough), a second
    exhaustive family over "odd" mappings (flags, access nodes carrying sentences, ...), and random
    histories of depth <= 30 over arbitrary branch indices are executed on real Branch objects and
    on the model (vm_compute inside Coq); new_constant(), new_world(), constants, worlds, closed and
    raised exceptions are compared for EVERY branch object of the heap (original and copies);
  * real tableaux (example arguments + random first-order / modal arguments, several logics) are
    stepped; every rule application that introduces a constant / world is checked against the
    branch as it was before the step, every branch after every step is re-derived from its nodes,
    and a sample of real branches is replayed through the model.
"""
from __future__ import annotations

import ast
import itertools
import json
import random

import vlib
from vlib import (Check, MachineryError, coq_eval_cases, ensure_theory, probe_json,
                  props_assumptions)

vlib.NCPU = min(vlib.NCPU, 8)     # at most 4 coqc processes (coq_eval_cases uses NCPU // 2)

HEADER = ('From Coq Require Import List Bool Arith.\n'
          'From PT Require Import Tab.Branch.\n'
          'Import ListNotations.\n')

THEOREMS = ['C06_fresh', 'C06_fresh_heap', 'C06_witness_fresh', 'C06_copy_independent', 'C06_old_refuted',
            'C06_any_sentence_key_refuted']

# ---- node alphabets ------------------------------------------------------------------------
# constants are [index, subscript]; with maxi = 3 the constant d = [3, 0] makes next() roll over


def spec(consts=None, neg=False, designated=None, world=None, world1=None, world2=None, flag=None):
    return dict(consts=consts, neg=neg, designated=designated, world=world, world1=world1,
                world2=world2, flag=flag)


def main_alphabet(maxi: int) -> dict:
    return {
        'Fa': spec([[0, 0]]),
        'Fb': spec([[1, 0]], neg=True),
        'Gab': spec([[0, 0], [1, 0]]),
        'Fc': spec([[2, 0]]),
        'Fz': spec([[maxi, 0]]),                    # maximal index: next() rolls the subscript
        'R01': spec(world1=0, world2=1),
        'R12': spec(world1=1, world2=2),
        'Faw2': spec([[0, 0]], world=2),
    }


def odd_alphabet(maxi: int) -> dict:
    return {
        'cl': spec(flag='closure'),
        'quit': spec(flag='quit'),
        'flagS': spec([[0, 0]], flag='other'),                 # flag node carrying a sentence
        'accS': spec([[0, 0]], world=5, world1=0, world2=1),    # access node carrying sentence + world
        'desW': spec(designated=True, world=3),                 # designation + world, no sentence
        'W4': spec(world=4),
        'W1only': spec(world1=7),
        'Sdw': spec([[1, 0], [maxi, 1]], designated=False, world=1),
        'Fa': spec([[0, 0]]),
        'Fa1': spec([[0, 1]]),
    }


def coq_opt(x) -> str:
    return 'None' if x is None else f'(Some {x})'


def coq_node(s: dict) -> str:
    flag = {None: 'FNone', 'closure': 'FClosure', 'quit': 'FQuit'}.get(s.get('flag'), 'FOther')
    cs = s.get('consts')
    sent = 'None' if cs is None else '(Some [' + '; '.join(f'({i},{j})' for i, j in cs) + '])'
    des = 'true' if s.get('designated') is not None else 'false'
    return (f'(mkNode {flag} {sent} {des} {coq_opt(s.get("world"))} {coq_opt(s.get("world1"))} '
            f'{coq_opt(s.get("world2"))})')


def coq_header(alphabet: dict) -> str:
    return HEADER + ''.join(f'Definition n_{k} : node := {coq_node(v)}.\n' for k, v in alphabet.items())


def coq_ops(h) -> str:
    return '[' + '; '.join(f'Append {o[1]} n_{o[2]}' if o[0] == 'A' else f'Copy {o[1]}' for o in h) + ']'


def parse_coq(ans: str):
    return ast.literal_eval(ans.replace(';', ',').replace('true', 'True').replace('false', 'False'))


def canon_obs(o: dict):
    return (o['nc'][0], o['nc'][1], o['nw'], [tuple(c) for c in o['consts']], list(o['worlds']), o['closed'])


def canon_model_obs(t):
    return (t[0], t[1], t[2], [tuple(c) for c in t[3]], list(t[4]), t[5])


def enumerate_pointer(names: list[str], depth: int):
    """All histories of `depth` ops in the pointer language: append a node to the current branch,
    copy-and-continue-on-the-copy, copy-and-stay."""
    out = []

    def rec(h, cur, size):
        if len(h) == depth:
            out.append(h)
            return
        for n in names:
            rec(h + [['A', cur, n]], cur, size)
        rec(h + [['C', cur]], size, size + 1)
        rec(h + [['C', cur]], cur, size + 1)
    rec([], 0, 1)
    return out


def random_history(rng: random.Random, names: list[str], maxlen: int):
    n = rng.randint(1, maxlen)
    h = []
    size = 1
    for _ in range(n):
        if rng.random() < 0.18 and size < 6:
            h.append(['C', rng.randrange(size)])
            size += 1
        else:
            h.append(['A', rng.randrange(size), rng.choice(names)])
    return h


def random_alphabet(rng: random.Random, maxi: int, n: int) -> dict:
    res = {}
    for k in range(n):
        r = rng.random()
        def rc():
            return [rng.randint(0, maxi), rng.choice([0, 0, 0, 1, 1, 2])]
        if r < 0.55:
            cs = [rc() for _ in range(rng.choice([1, 1, 2, 3]))]
            cs = [list(x) for x in sorted({tuple(c) for c in cs})]
            res[f'r{k}'] = spec(cs, neg=rng.random() < 0.3,
                                designated=rng.choice([None, True, False]),
                                world=rng.choice([None, None, 0, 1, 2, 3, 6]))
        elif r < 0.8:
            res[f'r{k}'] = spec(world1=rng.randint(0, 6), world2=rng.randint(0, 6))
        elif r < 0.9:
            res[f'r{k}'] = spec(world=rng.randint(0, 8))
        else:
            res[f'r{k}'] = spec(consts=rng.choice([None, [rc()]]), flag=rng.choice(['closure', 'quit', 'other']),
                                world=rng.choice([None, 2]))
    return res


# ---- running both sides -----------------------------------------------------------------------

def run_impl(alphabet, histories, mode, nproc=1):
    if nproc <= 1 or len(histories) < 4000:
        return probe_json('probe_branch.py', stdin=json.dumps(dict(alphabet=alphabet, histories=histories, mode=mode)))
    from concurrent.futures import ThreadPoolExecutor
    k = (len(histories) + nproc - 1) // nproc
    parts = [histories[i:i + k] for i in range(0, len(histories), k)]
    with ThreadPoolExecutor(max_workers=nproc) as ex:
        outs = list(ex.map(lambda p: probe_json('probe_branch.py', stdin=json.dumps(
            dict(alphabet=alphabet, histories=p, mode=mode))), parts))
    res = dict(outs[0])
    res['results'] = [r for o in outs for r in o['results']]
    return res


def run_model(alphabet, histories, mode, maxi, name, batch=100):
    fn = 'final' if mode == 'final' else 'trace'
    exprs = []
    for i in range(0, len(histories), batch):
        hs = histories[i:i + batch]
        if mode == 'final':
            exprs.append(f'map (final {maxi}) [' + '; '.join(coq_ops(h) for h in hs) + ']')
        else:
            exprs.append(f'map (trace {maxi} [empty]) [' + '; '.join(coq_ops(h) for h in hs) + ']')
    answers = coq_eval_cases('C06', coq_header(alphabet), exprs, shard=20, name=name, timeout=900)
    res = []
    for a in answers:
        res.extend(parse_coq(a))
    if len(res) != len(histories):
        raise MachineryError(f'C06 {name}: {len(res)} model answers for {len(histories)} histories')
    return res


def err_matches(model_err: bool, impl_err) -> bool:
    return (impl_err == 'IllegalStateError') if model_err else (impl_err is None)


def compare_final(model, impl) -> bool:
    merrs, mheap = model
    if len(merrs) != len(impl['errs']) or any(not err_matches(m, e) for m, e in zip(merrs, impl['errs'])):
        return False
    return [canon_model_obs(t) for t in mheap] == [canon_obs(o) for o in impl['heap']]


def text_flags(heap) -> list[str]:
    fl = []
    for o in heap:
        if o['nc_on']:
            fl.append('new_constant-on-branch')
        if o['nw_on']:
            fl.append('new_world-on-branch')
        if not o['sets_ok']:
            fl.append('sets')
    return fl


def diagnose(alphabet, h, maxi):
    """Shortest diverging prefix of h, which field / branch differs, and whether the implementation
    violates the property text there."""
    impl = probe_json('probe_branch.py', stdin=json.dumps(dict(alphabet=alphabet, histories=[h], mode='trace')))['results'][0]
    model = run_model(alphabet, [h], 'trace', maxi, 'Diag')[0]
    for k, (m, r) in enumerate(zip(model, impl)):
        merr, mheap = m
        mo = [canon_model_obs(t) for t in mheap]
        io = [canon_obs(o) for o in r['heap']]
        flags = text_flags(r['heap'])
        if err_matches(merr, r['err']) and mo == io and not flags:
            continue
        op = h[k]
        field = 'exception'
        where = None
        if err_matches(merr, r['err']):
            if len(mo) != len(io):
                field = 'heap-size'
            else:
                for bi, (a, b) in enumerate(zip(mo, io)):
                    if a != b:
                        where = bi
                        names = ['new_constant', 'new_constant', 'new_world', 'constants', 'worlds', 'closed']
                        field = next(names[i] for i in range(6) if a[i] != b[i])
                        break
                else:
                    field = 'text-only'
        untouched = where is not None and not (op[0] == 'A' and op[1] == where) and not (op[0] == 'C' and where == len(io) - 1)
        return dict(prefix=h[:k + 1], op=op, field=field, branch=where, untouched_branch=untouched,
                    text_flags=flags, model=[list(x) for x in mo], impl=[list(x) for x in io],
                    impl_err=r['err'], model_err=merr)
    return None


def polish_const(c) -> str:
    return 'mnos'[c[0]] + (str(c[1]) if c[1] else '')


def realising_argument(alphabet, d) -> dict | None:
    """An argument whose CFOL trunk realises the constant history of the offending branch: premises
    ~F c for the constants in arrival order, then ExFx, conclusion an unrelated atom."""
    h = d['prefix']
    bi = d['branch'] if d['branch'] is not None else 0
    # lineage of branch bi
    parent = {0: None}
    size = 1
    seq = {0: []}
    for o in h:
        if o[0] == 'C':
            seq[size] = list(seq[o[1]])
            size += 1
        else:
            cs = alphabet[o[2]].get('consts')
            if cs and alphabet[o[2]].get('flag') is None:
                seq[o[1]].append(cs)
    sents = seq.get(bi) or []
    if not sents or any(c[0] > 3 for cs in sents for c in cs):
        return None
    prem = []
    for cs in sents:
        parts = ['NF' + polish_const(c) for c in cs]
        s = parts[0]
        for p in parts[1:]:
            s = 'K' + s + p
        prem.append(s)
    argstr = ':'.join(['a'] + prem + ['SxFx'])
    out = probe_json('probe_witness.py', stdin=json.dumps(dict(cases=[['CFOL', argstr]], max_steps=200, verdict=True)))
    c = out['cases'][0]
    return dict(logic='CFOL', argument=argstr, trunk_bad=[b for b in c['branch_bad'] if b['step'] == 0],
                witness_bad=c['bad'], verdict=c.get('verdict'),
                note='premises ~Fc.. (satisfiable with ExFx by a fresh object), conclusion an unrelated atom: semantically invalid')


def report_divergence(chk: Check, alphabet, h, maxi, family):
    d = diagnose(alphabet, h, maxi)
    if d is None:
        return
    if d['untouched_branch']:
        key = 'Branch.copy/independence'
        what = (f'after {d["op"]} branch #{d["branch"]} (not the target of the operation) changed its {d["field"]}: '
                f'copies are not independent')
        genuine = True
    elif 'new_constant-on-branch' in d['text_flags']:
        key = 'Branch.append/nextconst'
        what = f'new_constant() returns a constant that occurs on the branch after history {d["prefix"]}'
        genuine = True
    elif 'new_world-on-branch' in d['text_flags']:
        key = 'Branch.append/nextworld'
        what = f'new_world() returns a world that is not above every world on the branch after history {d["prefix"]}'
        genuine = True
    elif 'sets' in d['text_flags']:
        key = 'Branch.append/sets'
        what = f'Branch.constants / Branch.worlds differ from the constants / worlds of the nodes after {d["prefix"]}'
        genuine = True
    else:
        key = f'Branch.model-divergence:{d["field"]}'
        what = (f'Branch.{d["field"]} differs from the verified model after history {d["prefix"]} '
                f'(no freshness violation on this history; the theorems no longer describe this code)')
        genuine = False
    rep = dict(kind='branch_history', family=family, alphabet=alphabet, history=d['prefix'], maxi=maxi,
               expected_model=d['model'], observed=d['impl'], field=d['field'], text_flags=d['text_flags'],
               model_err=d['model_err'], impl_err=d['impl_err'])
    if key == 'Branch.append/nextconst':
        try:
            rep['realising_argument'] = realising_argument(alphabet, d)
        except Exception as e:  # the search is best effort
            rep['realising_argument'] = f'search failed: {e}'
    chk.violation(key, what, rep, found_input=genuine)


def check_family(chk: Check, alphabet, histories, mode, maxi, family, nproc=1, sample_every=997, shorter=True):
    impl = run_impl(alphabet, histories, mode, nproc)
    model = run_model(alphabet, histories, mode, maxi, 'H' + family)
    bad = []
    for i, (h, m, r) in enumerate(zip(histories, model, impl['results'])):
        if mode == 'final':
            ok = compare_final(m, r) and not text_flags(r['heap'])
            nontrivial = any(o[0] == 'A' for o in h)
            last = r['heap']
        else:
            ok = len(m) == len(r) and all(
                err_matches(mm[0], rr['err']) and [canon_model_obs(t) for t in mm[1]] == [canon_obs(o) for o in rr['heap']]
                and not text_flags(rr['heap']) for mm, rr in zip(m, r))
            nontrivial = True
            last = r[-1]['heap'] if r else []
        chk.case([family, h], nontrivial=nontrivial,
                 sample=dict(family=family, history=h, heap=[canon_obs(o) for o in last]) if i % sample_every == 0 else None)
        chk.count('history_len', str(len(h)))
        if not ok:
            bad.append(h)
    chk.count('family', family, len(histories))
    # shortest (then first) diverging histories; one diagnosis per distinct key is enough
    if bad and mode == 'final' and shorter:
        # every enumerated history has the same length: look for shorter diverging ones first
        names = list(alphabet)
        for d in range(1, len(bad[0])):
            hs = enumerate_pointer(names, d)
            im = run_impl(alphabet, hs, 'final', 1)['results']
            mo = run_model(alphabet, hs, 'final', maxi, 'S' + family)
            small = [h for h, m, r in zip(hs, mo, im) if not (compare_final(m, r) and not text_flags(r['heap']))]
            if small:
                bad = small + bad
                break
    bad.sort(key=len)
    for h in bad[:12]:
        report_divergence(chk, alphabet, h, maxi, family)
    return len(bad)


# ---- witness-introducing rules on real tableaux ------------------------------------------------

QUICK_LOGICS = ['CFOL', 'K', 'D', 'S4', 'S5', 'FDE', 'KFDE', 'K3WQ', 'T']
MORE_LOGICS = ['KK3WQ', 'MH', 'NH', 'GO', 'S4GO', 'L3', 'LP', 'S5FDE', 'TK3', 'G3', 'B3E', 'K3W', 'RM3', 'S4K3WQ', 'KLP']


def rand_sentence(rng, depth, bound, modal):
    r = rng.random()
    if depth <= 0 or r < 0.22:
        k = rng.random()
        terms = list(bound) + ['m', 'n', 'o', 's', 'n', 'm', 'm1']
        if k < 0.2 and not bound:
            return rng.choice('ab')
        if k < 0.75:
            return 'F' + rng.choice(terms)
        return 'G' + rng.choice(terms) + rng.choice(terms)
    if r < 0.4:
        return 'N' + rand_sentence(rng, depth - 1, bound, modal)
    if r < 0.62:
        return rng.choice('KAC') + rand_sentence(rng, depth - 1, bound, modal) + rand_sentence(rng, depth - 1, bound, modal)
    if r < 0.85 or not modal:
        free = [v for v in 'xyz' if v not in bound]
        if not free:
            return 'N' + rand_sentence(rng, depth - 1, bound, modal)
        v = free[0]
        # the body must contain the variable: put it in by construction
        body = rand_sentence(rng, depth - 1, bound + [v], modal)
        if v not in body:
            body = rng.choice('KA') + 'F' + v + body
        return rng.choice('SSV') + v + body
    return rng.choice('ML') + rand_sentence(rng, depth - 1, bound, modal)


def rand_argument(rng, modal):
    n = rng.choice([1, 2, 2, 3])
    prem = [rand_sentence(rng, rng.randint(1, 3), [], modal) for _ in range(n)]
    conc = rand_sentence(rng, rng.randint(1, 3), [], modal)
    # constants in non-alphabetical arrival order are the interesting case
    return ':'.join([conc] + prem)


def witness_cases(args, rng):
    facts = probe_json('probe_witness.py', ['--meta'])
    logics = {L['name']: L for L in facts['logics']}
    examples = facts['examples']
    names = QUICK_LOGICS if args.tier == 'quick' else QUICK_LOGICS + [n for n in MORE_LOGICS if n in logics]
    cases = []
    wit_examples = [e for e in examples if any(ch in e for ch in 'SVML')]
    for n in names:
        src = wit_examples if args.tier == 'quick' else examples
        cases.extend([n, e] for e in src)
    # several witness-introducing nodes of one kind on a tableau that forks (a witness taken from the trunk's
    # counter instead of the branch's is fresh on the trunk only), in every quantified logic of the registry
    for n, L_ in sorted(logics.items()):
        if L_.get('quantified', True):
            for a_ in ('a:NVxFx:NVxGx:Abc', 'a:SxFx:SxGx:Abc:SxHx', 'VxFx:Abc:NSxNFx:NSxNGx'):
                cases.append([n, a_])
            if L_.get('modal'):
                cases.append([n, 'a:MFm:MGm:Abc:MHm'])
    nrand = 40 if args.tier == "quick" else 250
    for n in names:
        modal = bool(logics.get(n, {}).get('modal'))
        for _ in range(nrand):
            cases.append([n, rand_argument(rng, modal)])
    return cases


def check_witnesses(chk: Check, args, rng, maxi):
    cases = witness_cases(args, rng)
    nproc = 4
    k = (len(cases) + nproc - 1) // nproc
    parts = [cases[i::nproc] for i in range(nproc)]
    from concurrent.futures import ThreadPoolExecutor
    with ThreadPoolExecutor(max_workers=nproc) as ex:
        outs = list(ex.map(lambda p: probe_json('probe_witness.py', stdin=json.dumps(
            dict(cases=p, max_steps=120 if args.tier == "quick" else 200, export_branches=60,
                 budget_s=3 if args.tier == "quick" else 5)), timeout=3000), parts))
    static = {}
    intro_seen = {}
    n_intro = 0
    n_offer = 0
    errors = 0
    branches = []
    for o in outs:
        static.update(o['static'])
        for c in o['cases']:
            if c['error']:
                errors += 1
                chk.count('witness_case_error', c['error'].split(':')[0])
                continue
            chk.count('witness_logic', c['logic'])
            if c.get('cut'):
                chk.count('witness_cut_by_probe_budget', c['logic'])
            for it in c['intro']:
                n_intro += 1
                n_offer += bool(it['is_offer'])
                intro_seen.setdefault(c['logic'], set()).add(it['rule'])
                chk.count('witness_rule', f"{it['rule']}/{it['kind']}")
            chk.case(['witness', c['logic'], c['arg']], nontrivial=bool(c['intro']),
                     sample=dict(logic=c['logic'], argument=c['arg'], steps=c['steps'], introduced=c['intro'][:3])
                     if c['intro'] and chk.cases % 211 == 0 else None)
            for it in c['bad']:
                chk.violation(f"witness:{it['rule']}:{it['kind']}",
                              f"{c['logic']} rule {it['rule']} introduced {it['kind']} {it['item']} at step {it['step']} "
                              f"of {c['arg']} although it already occurred on the branch",
                              dict(kind='witness', logic=c['logic'], argument=c['arg'], rule=it['rule'], item=it['item'],
                                   item_kind=it['kind'], step=it['step']))
            for bb in c['branch_bad']:
                for w in bb['what']:
                    chk.violation(f'tableau-branch:{w}',
                                  f"{c['logic']} {c['arg']}: after step {bb['step']} branch #{bb['branch']} reports {w} "
                                  f"(new_constant {bb['nc']}, new_world {bb['nw']})",
                                  dict(kind='witness', logic=c['logic'], argument=c['arg'], step=bb['step'], what=w))
            branches.extend((c['logic'], c['arg'], b) for b in c['branches'])
    # a sample of real branches through the model
    branches = branches[:200 if args.tier == 'quick' else 240]
    if branches:
        exprs = []
        for _, _, b in branches:
            nodes = '; '.join(coq_node(dict(flag=n['flag'], consts=n['consts'], designated=True if n['des'] else None,
                                             world=n['world'], world1=n['world1'], world2=n['world2'])) for n in b['nodes'])
            exprs.append(f'observe (fold_left (append {maxi}) [{nodes}] empty)')
        answers = coq_eval_cases('C06', HEADER, exprs, shard=60, name='RealBr')
        for (lg, arg, b), a in zip(branches, answers):
            m = canon_model_obs(parse_coq(a))
            r = canon_obs(b['obs'])
            chk.case(['real-branch', lg, arg, len(b['nodes'])], nontrivial=True)
            if m != r:
                chk.violation('Branch.model-divergence:real-branch',
                              f'{lg} {arg}: a real branch of {len(b["nodes"])} nodes reports {r}, the model {m}',
                              dict(kind='real_branch', logic=lg, argument=arg, nodes=b['nodes'], observed=list(r), expected_model=list(m), maxi=maxi),
                              found_input=False)
    uncovered = {lg: sorted(set(rs) - intro_seen.get(lg, set())) for lg, rs in static.items()}
    chk.notes['witness_rules_static'] = {lg: sorted(rs) for lg, rs in static.items()}
    chk.notes['witness_rules_never_exercised'] = {lg: u for lg, u in uncovered.items() if u}
    chk.notes['witness_introductions'] = dict(total=n_intro, equal_to_branch_offer=n_offer, case_errors=errors,
                                              tableaux=len(cases), real_branches_through_model=len(branches))
    # every rule that was seen introducing an item must be one whose source asks the branch for it
    for lg, rs in intro_seen.items():
        for r in sorted(rs - set(static.get(lg, {}))):
            chk.violation(f'witness-unlisted:{r}',
                          f'{lg} rule {r} introduced a constant/world without calling new_constant()/new_world()',
                          dict(kind='witness_unlisted', logic=lg, rule=r), found_input=False)
    chk.obligation('witness rules exercised', n_intro > 0, kind='X')


# ---- main -------------------------------------------------------------------------------------

def run(args) -> int:
    chk = Check('C06', args.tier, args.seed)
    rng = random.Random(args.seed)
    chk.rule = ('exhaustive: all append/copy histories (pointer language: 8 nodes + copy-and-go + copy-and-stay) to depth '
                '4 quick / 5 thorough, all histories over 10 odd mappings to depth 3 / 4; random: heap histories of depth <= 30 '
                'over arbitrary branch indices and random mappings; real tableaux stepped with per-step witness check; '
                'distinct = distinct histories / (logic, argument) with at least one append / one introduced item')
    ensure_theory()
    chk.assumptions = props_assumptions('C06')
    chk.theorems = THEOREMS
    chk.obligation('Props/C06.v closed under the global context',
                   len(chk.assumptions) == len(THEOREMS) and all(a == 'Closed under the global context' for a in chk.assumptions))
    meta = probe_json('probe_branch.py', stdin=json.dumps(dict(alphabet={}, histories=[], mode='final')))
    maxi = meta['maxi']
    chk.notes['maxi'] = maxi
    ok_first = meta['first'] == [0, 0] and isinstance(maxi, int) and 0 <= maxi <= 3
    chk.obligation('Constant.first() = (0,0), 0 <= maxi <= 3 (polish symbols)', ok_first)
    if not ok_first:
        chk.violation('Constant.first/maxi', f'Constant.first() = {meta["first"]}, maxi = {maxi}: outside the modelled range',
                      dict(kind='meta', first=meta['first'], maxi=maxi), found_input=False)
        return chk.finish()
    quick = args.tier == 'quick'
    nbad = 0
    # 1. exhaustive, main alphabet
    A = main_alphabet(maxi)
    hs = enumerate_pointer(list(A), 4 if quick else 5)
    nbad += check_family(chk, A, hs, 'final', maxi, 'main', nproc=4)
    # the abstraction of the alphabet (declared constants = Sentence.constants)
    # 2. exhaustive, odd mappings
    B = odd_alphabet(maxi)
    hs = enumerate_pointer(list(B), 3 if quick else 4)
    nbad += check_family(chk, B, hs, 'final', maxi, 'odd', nproc=4)
    # 3. random heap histories, every op observed
    C = dict(A)
    C.update(B)
    C.update(random_alphabet(rng, maxi, 40))
    hs = [random_history(rng, list(C), 30) for _ in range(150 if quick else 1500)]
    nbad += check_family(chk, C, hs, 'trace', maxi, 'random', nproc=1, sample_every=401)
    chk.obligation('Branch model = Branch implementation on all enumerated and random histories', nbad == 0, kind='X')
    chk.notes['diverging_histories'] = nbad
    # 4. witness rules on real tableaux
    check_witnesses(chk, args, rng, maxi)
    chk.checker_cmd = ('coqc Props/C06.v (theorems, all histories) + gen/C06/H*.v (model evaluated by vm_compute) '
                       'against tools/probe_branch.py / tools/probe_witness.py on /repo')
    chk.trusted += ['tools/c06.py: translation of a mapping spec into the model node (coq_node) and of Coq answers back',
                    'tools/probe_branch.py / probe_witness.py: observation of real Branch / Tableau objects']
    chk.notes['explanation'] = (
        'obligations: Print Assumptions of the six theorems; Constant.first/maxi in range; the Branch model agrees with '
        'the real Branch on every exhaustive and random history (every branch object of the heap compared, so aliasing '
        'between a copy and its source would show); at least one witness introduction observed. Theorems hold for the '
        'model for ALL histories and all maxi; the run only establishes that the model is the code.')
    chk.notes['modelled_not_verified'] = (
        'copy aliasing (shared mutable sets) is checked by correspondence only; DuplicateValueError, negative worlds '
        'and negative constant indices are outside the model; that every witness rule takes its item from '
        'new_constant()/new_world() is observed on stepped tableaux, not proved')
    return chk.finish()


def replay(path: str) -> int:
    rep = json.load(open(path))
    kind = rep.get('kind')
    bad = False
    if kind == 'branch_history':
        out = probe_json('probe_branch.py', stdin=json.dumps(dict(alphabet=rep['alphabet'], histories=[rep['history']], mode='final')))
        r = out['results'][0]
        got = [list(canon_obs(o)) for o in r['heap']]
        exp = [[x[0], x[1], x[2], [list(c) for c in x[3]], x[4], x[5]] for x in rep['expected_model']]
        got_n = [[x[0], x[1], x[2], [list(c) for c in x[3]], x[4], x[5]] for x in got]
        flags = text_flags(r['heap'])
        errs_ok = err_matches(bool(rep.get('model_err')), r['errs'][-1]) if r['errs'] else True
        print(f'replay: history {rep["history"]} -> {got_n} flags {flags}; model {exp}')
        bad = bool(flags) or got_n != exp or not errs_ok
    elif kind in ('witness',):
        out = probe_json('probe_witness.py', stdin=json.dumps(dict(cases=[[rep['logic'], rep['argument']]], max_steps=250)))
        c = out['cases'][0]
        print(f'replay: {rep["logic"]} {rep["argument"]}: bad introductions {c["bad"]}, branch findings {c["branch_bad"][:3]}')
        bad = bool(c['bad'] or c['branch_bad'])
    elif kind == 'real_branch':
        # re-execute the node list on a real branch through the generic history probe
        alphabet = {f'x{i}': dict(consts=n['consts'], neg=False, designated=True if n['des'] else None, world=n['world'],
                                  world1=n['world1'], world2=n['world2'], flag=n['flag']) for i, n in enumerate(rep['nodes'])}
        h = [['A', 0, f'x{i}'] for i in range(len(rep['nodes']))]
        r = probe_json('probe_branch.py', stdin=json.dumps(dict(alphabet=alphabet, histories=[h], mode='final')))['results'][0]
        got = list(canon_obs(r['heap'][0]))
        exp = rep['expected_model']
        norm = lambda x: [x[0], x[1], x[2], [list(c) for c in x[3]], list(x[4]), x[5]]
        print(f'replay: real branch -> {norm(got)}; model {norm(exp)}')
        bad = norm(got) != norm(exp) or bool(text_flags(r['heap']))
    else:
        print(f'replay: record of kind {kind} names a broken obligation; re-running the check')
        import argparse
        return run(argparse.Namespace(pid='C06', tier=rep.get('tier', 'quick'), seed=rep.get('seed', 0), replay=None))
    if bad:
        print(f'VIOLATION property=C06 replay={path}')
        return 1
    return 0
