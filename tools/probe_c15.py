"""C15 probe: runs inside the implementation's interpreter; prints JSON only.

stdin: {"cases": [{"s": tree, "pairs": [[new, old], ...], "unq": [const, ...]}]}
Trees:  ["A", i, s] | ["P", [i, s, arity], [param...]] | ["Q", qname, [vi, vs], body]
        | ["O", opname, [operand...]];  param = ["c", i, s] | ["v", i, s]
Sentences are built through the public constructors only; results are read back
through public attributes only.
"""
import json
import sys

from pytableaux.lang import (Atomic, Constant, Operated, Operator, Predicate, Predicated,
                             Quantified, Quantifier, Variable)


def build_param(t):
    k, i, s = t
    return Constant(i, s) if k == 'c' else Variable(i, s)


def build_pred(spec):
    i, s, a = spec
    if i < 0:
        for p in Predicate.System:
            if tuple(p.spec) == (i, s, a):
                return p
        raise ValueError(spec)
    return Predicate(i, s, a)


def build(t):
    k = t[0]
    if k == 'A':
        return Atomic(t[1], t[2])
    if k == 'P':
        return Predicated(build_pred(t[1]), tuple(build_param(p) for p in t[2]))
    if k == 'Q':
        return Quantified(Quantifier[t[1]], Variable(*t[2]), build(t[3]))
    if k == 'O':
        return Operated(Operator[t[1]], tuple(build(x) for x in t[2]))
    raise ValueError(k)


def param_tree(p):
    if type(p) is Constant:
        return ['c', p.index, p.subscript]
    if type(p) is Variable:
        return ['v', p.index, p.subscript]
    raise TypeError(type(p).__name__)


def tree(s):
    ty = type(s)
    if ty is Atomic:
        return ['A', s.index, s.subscript]
    if ty is Predicated:
        return ['P', list(s.predicate.spec), [param_tree(p) for p in s.params]]
    if ty is Quantified:
        return ['Q', s.quantifier.name, list(s.variable.spec), tree(s.sentence)]
    if ty is Operated:
        return ['O', s.operator.name, [tree(x) for x in s.operands]]
    raise TypeError(ty.__name__)


def guard(f):
    try:
        return f()
    except Exception as e:  # reported, never decided here
        return {'err': type(e).__name__}


def attrs(s):
    return dict(
        constants=guard(lambda: sorted(param_tree(p) for p in s.constants)),
        variables=guard(lambda: sorted(param_tree(p) for p in s.variables)),
        predicates=guard(lambda: sorted(list(p.spec) for p in s.predicates)),
        atomics=guard(lambda: sorted([a.index, a.subscript] for a in s.atomics)),
        operators=guard(lambda: [o.name for o in s.operators]),
        quantifiers=guard(lambda: [q.name for q in s.quantifiers]),
        types=guard(lambda: [type(s.constants).__name__, type(s.variables).__name__,
                             type(s.predicates).__name__, type(s.atomics).__name__,
                             type(s.operators).__name__, type(s.quantifiers).__name__]))


def main():
    data = json.load(sys.stdin)
    out = []
    for c in data['cases']:
        s = build(c['s'])
        r = dict(attrs=attrs(s))
        r['negative'] = guard(lambda: tree(s.negative()))
        r['neg_op'] = guard(lambda: tree(-s))
        r['negate'] = guard(lambda: tree(s.negate()))
        r['inv_op'] = guard(lambda: tree(~s))
        r['subst'] = []
        r['subst_attrs'] = []
        for n, o in c.get('pairs', ()):
            # the receiver's derived attributes have been read (above): the result must compute its own
            t = guard(lambda: s.substitute(build_param(n), build_param(o)))
            if isinstance(t, dict):
                r['subst'].append(t)
                r['subst_attrs'].append(None)
            else:
                r['subst'].append(guard(lambda: tree(t)))
                r['subst_attrs'].append(attrs(t))
        r['unq'] = [guard(lambda: tree(s.unquantify(build_param(k)))) for k in c.get('unq', ())]
        r['rshift'] = [guard(lambda: tree(build_param(k) >> s)) for k in c.get('unq', ())]
        r['attrs_after'] = attrs(s)       # lazily cached values must not drift
        r['self_after'] = tree(s)         # the receiver is unchanged
        out.append(r)
    json.dump(out, sys.stdout)


main()
