"""C03 — propositional arguments are decided exactly, without limits."""
from __future__ import annotations

import itertools
import json
import random
import re

import coqgen
import rulegen
import c04
import c05
import weights
from coqgen import Inexpressible
from vlib import (Check, MachineryError, coq_eval_cases, coq_string, coqc, ensure_theory,
                  gen_dir, probe_json, props_assumptions, write_if_changed)

HEADER = ('From Coq Require Import List Bool String.\n'
          'From PT Require Import Util.Finite Sem.Values Sem.Lit Sem.Syntax Sem.Schema Sem.Closure\n'
          '  Tab.Node Tab.PropTab Tab.PropSound Tab.PropComplete Tab.PropDecide Tab.TruthTable Tab.PropTerm.\n'
          'Import ListNotations.\nOpen Scope string_scope.\n'
          'Definition lit_of (n : string) : tables := match lit n with Some t => t | None => '
          '{| t_vals := []; t_des := fun _ => false; t_un := fun _ a => a; t_bin := fun _ a _ => a |} end.\n')

TF_OPS_U = ['Assertion', 'Negation']
TF_OPS_B = ['Conjunction', 'Disjunction', 'MaterialConditional', 'MaterialBiconditional',
            'Conditional', 'Biconditional']


# ---- argument generation ---------------------------------------------------------

def rand_sent(rng, depth, natoms=3):
    if depth == 0 or rng.random() < 0.2:
        return ['A', rng.randrange(natoms)]
    if rng.random() < 0.3:
        return ['U', rng.choice(TF_OPS_U) if rng.random() < 0.3 else 'Negation', rand_sent(rng, depth - 1, natoms)]
    return ['B', rng.choice(TF_OPS_B), rand_sent(rng, depth - 1, natoms), rand_sent(rng, depth - 1, natoms)]


def small_sents(depth, natoms=2):
    "All sentences up to the given depth over natoms letters."
    level = [['A', i] for i in range(natoms)]
    allx = list(level)
    for _ in range(depth):
        new = []
        for o in TF_OPS_U:
            new += [['U', o, a] for a in allx]
        for o in TF_OPS_B:
            new += [['B', o, a, b] for a in allx for b in allx]
        allx = allx + [x for x in new if x not in allx]
    return allx


FIXED = [
    ([['B', 'MaterialConditional', ['A', 0], ['A', 1]], ['A', 0]], ['A', 1]),           # modus ponens
    ([['B', 'Conditional', ['A', 0], ['A', 1]], ['A', 0]], ['A', 1]),
    ([['B', 'Disjunction', ['A', 0], ['A', 1]], ['U', 'Negation', ['A', 0]]], ['A', 1]),  # DS
    ([], ['B', 'Disjunction', ['A', 0], ['U', 'Negation', ['A', 0]]]),                    # LEM
    ([['B', 'Conjunction', ['A', 0], ['U', 'Negation', ['A', 0]]]], ['A', 1]),            # explosion
    ([['B', 'MaterialBiconditional', ['A', 0], ['A', 1]]],
     ['B', 'Disjunction', ['B', 'Conjunction', ['U', 'Negation', ['A', 0]], ['U', 'Negation', ['A', 1]]],
      ['B', 'Conjunction', ['A', 0], ['A', 1]]]),
    ([['B', 'Biconditional', ['A', 0], ['A', 1]]],
     ['B', 'Disjunction', ['B', 'Conjunction', ['U', 'Negation', ['A', 0]], ['U', 'Negation', ['A', 1]]],
      ['B', 'Conjunction', ['A', 0], ['A', 1]]]),
    ([['U', 'Negation', ['B', 'Biconditional', ['A', 0], ['A', 1]]]], ['B', 'Biconditional', ['A', 0], ['U', 'Negation', ['A', 1]]]),
    ([['A', 0]], ['A', 0]),
    ([['U', 'Negation', ['U', 'Negation', ['A', 0]]]], ['A', 0]),
    ([['B', 'Conditional', ['A', 0], ['A', 1]], ['B', 'Conditional', ['A', 1], ['A', 2]]], ['B', 'Conditional', ['A', 0], ['A', 2]]),
    ([['U', 'Assertion', ['A', 0]]], ['A', 0]),
    ([], ['B', 'Conditional', ['A', 0], ['A', 0]]),
    ([['U', 'Negation', ['B', 'Conjunction', ['A', 0], ['A', 1]]]], ['B', 'Disjunction', ['U', 'Negation', ['A', 0]], ['U', 'Negation', ['A', 1]]]),
    ([['U', 'Negation', ['B', 'Disjunction', ['A', 0], ['A', 1]]]], ['B', 'Conjunction', ['U', 'Negation', ['A', 0]], ['U', 'Negation', ['A', 1]]]),
]


def gen_jobs(logics, tier, seed):
    rng = random.Random(seed)
    jobs = []
    per_logic_rand = 16 if tier == 'quick' else 160
    small = small_sents(1, 2)
    for L in logics:
        n = L['name']
        for prems, concl in FIXED:
            jobs.append(dict(logic=n, premises=prems, conclusion=concl, kind='fixed'))
        # exhaustive-small: conclusion of depth <= 1 over 2 letters, <= 1 premise of depth <= 1 (sampled in quick)
        pairs = [([], c) for c in small] + [([p], c) for p in small for c in small]
        if tier == 'quick':
            pairs = rng.sample(pairs, 20)
        else:
            pairs = rng.sample(pairs, 400)
        for prems, concl in pairs:
            jobs.append(dict(logic=n, premises=prems, conclusion=concl, kind='small'))
        for _ in range(per_logic_rand):
            k = rng.choice([0, 1, 1, 2])
            prems = [rand_sent(rng, 2) for _ in range(k)]
            concl = rand_sent(rng, 2)
            jobs.append(dict(logic=n, premises=prems, conclusion=concl, kind='random'))
        # option combinations on a few
        for _ in range(2 if tier == 'quick' else 20):
            prems = [rand_sent(rng, 2) for _ in range(rng.choice([1, 2]))]
            concl = rand_sent(rng, 2)
            for go, ro in itertools.product([True, False], repeat=2):
                jobs.append(dict(logic=n, premises=prems, conclusion=concl, kind='options',
                                 opts=dict(is_group_optim=go, is_rank_optim=ro)))
    for i, j in enumerate(jobs):
        j['id'] = i
    return jobs


# ---- generated logic instances -------------------------------------------------------

def emit_logics(chk, g, facts, rules, pid='C03'):
    """Rules.v with PL_<logic> (only rules whose obligations hold) and Obl.v with decide_ok lemmas.
    Returns {logic: dict(ok=bool, bad_rules=[...])}."""
    logics = facts['logics']
    data = c04.gather(facts, rules)
    src = [HEADER]
    names = {}
    for L in logics:
        n = L['name']
        i = coqgen.ident(n)
        rs = []
        for item in data[n]:
            if item['kind'] == 'op' and item['term'] and not item['error']:
                rn = coqgen.ident(item['rule']['name'])
                src.append(f'Definition r_{i}_{rn} : tfrule := {item["term"]}.')
                rs.append((item['rule']['name'], f'r_{i}_{rn}'))
        names[n] = rs
    write_if_changed(g / 'Rules.v', '\n'.join(src) + '\n')
    rc, out = coqc(g / 'Rules.v')
    if rc:
        raise MachineryError('generated Rules.v does not compile:\n' + out[-3000:])
    exprs = []
    for L in logics:
        n = L['name']
        t = f'(lit_of {coq_string(n)})'
        rl = '[' + '; '.join(x for _, x in names[n]) + ']'
        ks = '[' + '; '.join(c05.KINDS[c] for c in L['closure'] if c in c05.KINDS) + ']'
        hd = 'true' if L['has_designation'] else 'false'
        exprs.append(f'(map (fun r => rule_two_opd r && is_none (tf_sound {t} r) && is_none (tf_complete {t} r)) {rl}, '
                     f'is_none (closure_sound {t} {hd} {ks}) && is_none (closure_complete {t} {hd} {ks}) && ks_ok {hd} {ks} '
                     f'&& closed_ok {t} && vmem V{L["unassigned"]} (t_vals {t}) && ({hd} || neg_flips {t}))')
    answers = coq_eval_cases(pid, HEADER + f'Require Import G{pid}.Rules.\n', exprs, shard=20, name='LStatus')
    info = {}
    defs = [HEADER, f'Require Import G{pid}.Rules.\nFrom PTProps Require C03.\n']
    for L, ans in zip(logics, answers):
        n = L['name']
        i = coqgen.ident(n)
        m = re.match(r'\(\[(.*)\], (true|false)\)$', ans)
        if not m:
            raise MachineryError(f'cannot parse logic status for {n}: {ans[:200]}')
        flags = [x.strip() == 'true' for x in m.group(1).split(';')] if m.group(1).strip() else []
        good = [x for (nm, x), f in zip(names[n], flags) if f]
        bad = [nm for (nm, x), f in zip(names[n], flags) if not f]
        base_ok = m.group(2) == 'true'
        t = f'(lit_of {coq_string(n)})'
        ks = '[' + '; '.join(c05.KINDS[c] for c in L['closure'] if c in c05.KINDS) + ']'
        hd = 'true' if L['has_designation'] else 'false'
        defs.append(f'Definition PL_{i} : plogic := {{| pl_t := {t}; pl_hd := {hd}; pl_ks := {ks}; '
                    f'pl_rules := [{"; ".join(good)}] |}}.')
        if base_ok:
            negp = 'intro H; discriminate H' if L['has_designation'] else 'intro; vm_compute; reflexivity'
            defs.append(f'Lemma ok_{i} : decide_ok PL_{i} V{L["unassigned"]}.\n'
                        'Proof. constructor; [constructor; vm_compute; reflexivity | constructor; vm_compute; reflexivity '
                        '| vm_compute; reflexivity | vm_compute; reflexivity | vm_compute; auto 10 | ' + negp + ' ]. Qed.\n'
                        f'Definition C03_{i} := C03_decides PL_{i} V{L["unassigned"]}.\n')
        # termination: weight proposal (untrusted hint) checked by the kernel
        oprules = [it['rule'] for it in data[n] if it['kind'] == 'op' and it['term'] and not it['error']
                   and it['rule']['name'] not in bad]
        ws, _ = weights.search(oprules)
        mmax = max([len(r['variants'][0]['applied'][0]['adds']) for r in oprules] + [1])
        if ws is None:
            chk.obligation(f'{n}:term_ok', False)
            chk.violation(f'terminate:{n}:no-weights',
                          f'{n}: no linear weight assignment found under which every rule decreases',
                          dict(kind='obligation', logic=n, obligation=f'term_ok PL_{i}'), found_input=False)
        else:
            defs.append(f'Definition WS_{i} : wspec := {weights.coq_wspec(ws)}.\n'
                        f'Lemma term_{i} : term_ok PL_{i} WS_{i} {mmax}.\n'
                        'Proof. constructor; vm_compute; reflexivity. Qed.\n'
                        f'Definition C03_term_{i} := C03.C03_terminates PL_{i} WS_{i} {mmax} term_{i}.\n')
            chk.obligation(f'{n}:term_ok', True)
        for br in (bad if pid == 'C03' else []):
            # a rule whose exactness obligation is refuted is outside the decision theorem: report it
            # (with a concrete wrongly decided argument when the search finds one)
            kn = chk.known.get((chk.pid, f'decide:{n}:{br}'))
            inp = None if (kn and kn.get('status') == 'open') else \
                search_failing(n, next(it['rule'] for it in data[n] if it['rule']['name'] == br))
            chk.violation(f'decide:{n}:{br}',
                          f'{n}: the expansion {br} is not exact, so arguments using it are not decided by the theorem'
                          + (f"; wrongly decided: {inp['argstr']} (verdict valid={inp['verdict_valid']}, truth-table valid={inp['truth_table_valid']})" if inp else ''),
                          dict(kind='proof', logic=n, rule=br, **(inp or {})), found_input=bool(inp))
        info[n] = dict(ok=base_ok, bad_rules=bad, nrules=len(good))
        chk.obligation(f'{n}:decide_ok(closure,tables,{len(good)} exact rules)', base_ok)
        if not base_ok:
            chk.violation(f'decide:{n}:base-obligations',
                          f'{n}: closure / table obligations of the decision theorem are not discharged',
                          dict(kind='obligation', logic=n, obligation=f'decide_ok PL_{i}'), found_input=False)
    write_if_changed(g / 'Logics.v', '\n'.join(defs).replace(':= C03_decides', ':= C03.C03_decides') + '\n')
    rc, out = coqc(g / 'Logics.v', timeout=900)
    if rc:
        raise MachineryError('generated Logics.v does not compile:\n' + out[-3000:])
    return info


_SEARCH_CACHE = {}


def candidate_args(rule):
    "Small arguments built around a rule's principal shape (premises, conclusion as JSON sentences)."
    A, B, Cc = ['A', 0], ['A', 1], ['A', 2]
    o = rule['operator']
    phi = ['U', o, A] if o in TF_OPS_U else ['B', o, A, B]
    if rule['negated']:
        phi = ['U', 'Negation', phi]
    lits = [A, B, ['U', 'Negation', A], ['U', 'Negation', B]]
    subs = [(a_, b_) for a_ in (A, ['U', 'Negation', A], ['B', 'Conjunction', A, ['U', 'Negation', A]], ['U', 'Negation', ['U', 'Negation', A]])
            for b_ in (B, ['U', 'Negation', B])]
    out = []
    for a_, b_ in subs:
        ph = json.loads(json.dumps(phi).replace(json.dumps(A), '"@A"').replace(json.dumps(B), '"@B"')
                        .replace('"@A"', json.dumps(a_)).replace('"@B"', json.dumps(b_)))
        des = rule['designation'] is not False
        for extra in ([], [lits[0]], [lits[1]], [lits[2]], [lits[3]], [lits[2], lits[3]], [lits[0], lits[3]]):
            for other in lits + [Cc, ['B', 'Disjunction', A, B], ['B', 'Disjunction', lits[2], lits[3]]]:
                if des:
                    out.append(([ph] + extra, other))
                else:
                    out.append((extra + [other], ph))
                    out.append((extra, ['B', 'Disjunction', ph, other]))
    return out


def search_failing(logic, rule):
    "Failing-input search for an inexact rule: arguments built around the rule's principal shape; real verdict vs brute-force oracle of the implementation's own evaluator."
    key = (logic, rule['name'])
    if key in _SEARCH_CACHE:
        return _SEARCH_CACHE[key]
    jobs = [dict(logic=logic, premises=p_, conclusion=c_) for p_, c_ in candidate_args(rule)]
    for i, j in enumerate(jobs):
        j['id'] = i
    res = probe_json('probe_oracle.py', stdin=json.dumps(dict(jobs=jobs)), timeout=900)['results']
    hit = None
    for j, r in zip(jobs, res):
        if r.get('ok') and r['valid'] is not None and r['oracle_valid'] is not None and r['valid'] != r['oracle_valid']:
            hit = dict(premises=j['premises'], conclusion=j['conclusion'], argstr=r['argstr'],
                       verdict_valid=r['valid'], truth_table_valid=r['oracle_valid'])
            break
    _SEARCH_CACHE[key] = hit
    return hit


def run(args) -> int:
    chk = Check('C03', args.tier, args.seed)
    ensure_theory()
    facts = probe_json('probe_facts.py')
    rules = probe_json('probe_rules.py')
    logics = facts['logics']
    byname = {L['name']: L for L in logics}
    g = gen_dir('C03')
    info = emit_logics(chk, g, facts, rules)

    # the theorems are about the schemas: validate that the truth-functional rules are schematic (operands that are
    # themselves negations / compounds must give exactly the schema instance)
    sc = probe_json('probe_schematic.py', [str(args.seed), '0' if args.tier == 'quick' else '6'], timeout=1800)
    rule_by = {(n, it['name']): it for n in rules for it in rules[n]['rules']}
    for rec in sc['cases']:
        if rec['kind'] != 'op':
            continue
        chk.count('schematic', 'ok' if rec['ok'] else 'mismatch')
        if not rec['ok']:
            inp = search_failing(rec['logic'], rule_by[(rec['logic'], rec['rule'])])
            chk.violation(f'schematic:{rec["logic"]}:{rec["rule"]}',
                          f'{rec["logic"]} {rec["rule"]}: on operands {rec["operands"]} the rule does not produce its schema instance '
                          f'(got {rec.get("got")}), so the decision theorem does not describe it'
                          + (f"; wrongly decided: {inp['argstr']} (verdict valid={inp['verdict_valid']}, truth-table valid={inp['truth_table_valid']})" if inp else ''),
                          dict(kind='proof', logic=rec['logic'], rule=rec['rule'], operands=rec['operands'], **(inp or {})),
                          found_input=bool(inp))
    jobs = gen_jobs(logics, args.tier, args.seed)
    res = probe_json('probe_proofs.py', stdin=json.dumps(dict(jobs=jobs)), timeout=3000)['results']
    exprs, idx = [], []
    for job, r in zip(jobs, res):
        n = job['logic']
        L = byname[n]
        chk.count('kind', job['kind'])
        chk.count('logic_family', n[-3:])
        if not r.get('ok'):
            chk.violation(f'run:{n}:exception:{r.get("error", "").split(":")[0]}',
                          f"{n}: building the tableau raised {r.get('error')}",
                          dict(kind='proof', job=job, error=r.get('error'), tb=r.get('tb')))
            continue
        if r['flags'] or r['premature'] or not r['finished']:
            chk.violation(f'run:{n}:limit-or-flag',
                          f"{n}: propositional argument hit a limit: flags={r['flags']} premature={r['premature']}",
                          dict(kind='proof', job=job, result={k: r[k] for k in ('flags', 'premature', 'finished', 'steps')}))
            continue
        if r['valid'] == r['invalid']:
            chk.violation(f'run:{n}:no-verdict', f"{n}: finished tableau reports valid={r['valid']} invalid={r['invalid']}",
                          dict(kind='proof', job=job))
            continue
        if not r['expressible']:
            chk.violation(f'run:{n}:inexpressible-step',
                          f"{n}: a propositional proof used a step the certificate language cannot express (rules {r['rules']})",
                          dict(kind='proof', job=job, rules=r['rules']), found_input=False)
            continue
        i = coqgen.ident(n)
        hd = 'true' if L['has_designation'] else 'false'
        t = f'(pl_t PL_{i})'
        exprs.append(f'(check PL_{i} {r["tree"]} {r["trunk"]} [], '
                     f'nodes_eqb {r["trunk"]} (trunk {hd} 0 {r["prems"]} {r["concl"]}), '
                     f'all_closed {r["tree"]}, tt_valid_b {t} V{L["unassigned"]} {r["prems"]} {r["concl"]}, '
                     f'tree_size {r["tree"]})')
        idx.append((job, r))
    answers = coq_eval_cases('C03', HEADER + 'Require Import GC03.Rules GC03.Logics.\n', exprs, shard=300, name='Runs')
    n_cert = 0
    for (job, r), ans in zip(idx, answers):
        n = job['logic']
        m = re.match(r'\((true|false), (true|false), (true|false), (true|false), (\d+)\)$', ans)
        if not m:
            raise MachineryError(f'cannot parse run status: {ans[:200]}')
        ck, tr, ac, tt, size = (m.group(1) == 'true', m.group(2) == 'true', m.group(3) == 'true',
                                m.group(4) == 'true', int(m.group(5)))
        nontriv = r['steps'] >= 3 and r['branches'] >= 2
        chk.case([n, job['premises'], job['conclusion'], job.get('opts')], nontrivial=nontriv,
                 sample=dict(logic=n, premises=job['premises'], conclusion=job['conclusion'], opts=job.get('opts'),
                             valid=r['valid'], steps=r['steps'], branches=r['branches'], certified=ck) if nontriv else None)
        rep = dict(kind='proof', logic=n, premises=job['premises'], conclusion=job['conclusion'],
                   opts=job.get('opts'), verdict_valid=r['valid'], truth_table_valid=tt, rules=r['rules'])
        used_bad = sorted(set(r['rules']) & set(info[n]['bad_rules']))
        if not tr:
            chk.violation(f'run:{n}:trunk', f"{n}: the trunk is not the premises designated + conclusion undesignated/negated",
                          rep)
            continue
        if r['valid'] != tt:
            if used_bad:
                for br in used_bad:
                    chk.violation(f'decide:{n}:{br}',
                                  f"{n}: verdict valid={r['valid']} but truth-table validity is {tt} (proof uses the inexact rule {br})", rep)
            else:
                chk.violation(f'decide:{n}:wrong-verdict',
                              f"{n}: verdict valid={r['valid']} but truth-table validity is {tt}", rep)
            continue
        if ac != r['valid']:
            chk.violation(f'run:{n}:verdict-vs-branches', f"{n}: valid={r['valid']} but all-branches-closed={ac}", rep)
            continue
        if not ck:
            if used_bad:
                chk.count('uncertified', 'uses-known-inexact-rule')
                continue
            chk.violation(f'run:{n}:rejected-by-checker',
                          f"{n}: the real proof is not a legal certified tableau (a step differs from the rule schemas, "
                          f"an open leaf is unsaturated, or closure was misjudged); rules used {r['rules']}",
                          dict(found='implementation verdict agrees with the truth table on this input', **rep),
                          found_input=False)
            continue
        n_cert += 1
    chk.notes['traces_validated_against_impl'] = n_cert
    chk.notes['proofs_run'] = len(res)
    chk.assumptions = props_assumptions('C03')
    chk.theorems = ['C03_decides', 'C03_tt_valid_meaning', 'C03_open_branch_countermodel', 'C03_closed_unsat', 'C03_terminates']
    chk.rule = ('per logic: decide_ok obligations (kernel); proofs: fixed classics + sampled exhaustive-small (depth<=1, 2 letters, '
                '<=1 premise) + random depth-2 arguments over 3 letters + 4 option combinations; every real proof is exported as a '
                'certificate, re-checked by the Coq checker and compared with the executable truth-table oracle; '
                'non-trivial = >= 3 steps and >= 2 branches')
    chk.checker_cmd = 'coqc gen/C03/{Rules,Logics,LStatus*,Runs*}.v against coq/theories/Tab/*.v, Props/C03.v'
    chk.trusted += ['Sem/Lit.v tables as each logic\'s semantics', 'tools/probe_proofs.py certificate export (reads branches through the public API)']
    chk.notes['explanation'] = (
        'Theorem C03_decides: for every logic with decide_ok discharged, every certificate accepted by check (any legal run, any '
        'options/order) has all leaves closed iff tt_valid_b; tt_valid_b is proved equivalent to the quantified statement. '
        'Per run: the real history is re-validated by check inside Coq (traces_validated_against_impl) so the theorem applies to it. '
        'C03_terminates bounds the expansion steps of every legal run by (m+1)^weight(trunk) under per-logic linear weights checked by the kernel; '
        'access-node steps of the frame rules on propositional input are not covered by that bound (no limit/flag is checked per run).')
    return chk.finish()


def replay(path: str) -> int:
    rep = json.load(open(path))
    if rep.get('kind') == 'proof' and 'premises' in rep:
        job = dict(logic=rep['logic'], premises=rep['premises'], conclusion=rep['conclusion'], opts=rep.get('opts'), id=0)
        r = probe_json('probe_proofs.py', stdin=json.dumps(dict(jobs=[job])))['results'][0]
        print(f"replay: {rep['logic']} {r.get('argstr')} valid={r.get('valid')} (truth-table valid: {rep.get('truth_table_valid')})")
        if r.get('valid') != rep.get('truth_table_valid'):
            print(f'VIOLATION property=C03 replay={path}')
            return 1
        return 0
    class A: pass
    a = A(); a.tier = rep.get('tier', 'quick'); a.seed = rep.get('seed', 0)
    return run(a)
