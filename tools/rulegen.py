"""Probed rule schemas (tools/probe_rules.py JSON) -> Gallina terms (fail-closed)."""
from __future__ import annotations

from coqgen import Inexpressible

MODAL = ('Possibility', 'Necessity')


# ---- truth-functional schemas -------------------------------------------------

def ssch(s) -> str:
    if 'opd' in s:
        return f"(Opd {int(s['opd'])})"
    if 'un' in s:
        return f"(SUn {s['un']} {ssch(s['a'])})"
    if 'bin' in s:
        return f"(SBin {s['bin']} {ssch(s['a'])} {ssch(s['b'])})"
    raise Inexpressible(f'not a truth-functional schema: {s}')


def dval(d) -> str:
    return 'false' if d is False else 'true'     # None (no designation marker) = satisfied iff designated


def nsch(n) -> str:
    if 's' not in n:
        raise Inexpressible(f'not a sentence node: {n}')
    if n.get('w') not in (None, 'same'):
        raise Inexpressible(f'truth-functional rule leaves its world: {n}')
    return f"{{| ns_s := {ssch(n['s'])}; ns_d := {dval(n['d'])} |}}"


def principal_schema(rule) -> dict:
    o = rule['operator']
    if o in ('Assertion', 'Negation'):
        s = {'un': o, 'a': {'opd': 0}}
    else:
        s = {'bin': o, 'a': {'opd': 0}, 'b': {'opd': 1}}
    if rule['negated']:
        s = {'un': 'Negation', 'a': s}
    return s


def tfrule(rule) -> str:
    """Gallina `tfrule` for a probed truth-functional rule."""
    var = rule['variants'][0]['applied']
    if len(var) != 1 or 'adds' not in var[0]:
        raise Inexpressible(f"{rule['name']}: expected exactly one application, got {var}")
    if not rule['ticking']:
        raise Inexpressible(f"{rule['name']}: truth-functional rule does not tick its node")
    p = f"{{| ns_s := {ssch(principal_schema(rule))}; ns_d := {dval(rule['designation'])} |}}"
    groups = '; '.join('[' + '; '.join(nsch(n) for n in g) + ']' for g in var[0]['adds'])
    return f'{{| r_principal := {p}; r_exts := [{groups}] |}}'


# ---- generalising (quantifier / modal) schemas ----------------------------------

def vfun(s, hole) -> str:
    """Schema over the element hole (bound var / new / any constant, or operand at a world) -> vfun."""
    if hole(s):
        return 'FId'
    if 'un' in s:
        return f"(FUn {s['un']} {vfun(s['a'], hole)})"
    if 'bin' in s:
        return f"(FBin {s['bin']} {vfun(s['a'], hole)} {vfun(s['b'], hole)})"
    raise Inexpressible(f'not an element function: {s}')


def split_outer(s):
    "Peel unary operators off a sentence schema: returns (list of outer unary ops outermost first, core)."
    outer = []
    while 'un' in s:
        outer.append(s['un'])
        s = s['a']
    return outer, s


def outer_fun(ops) -> str:
    f = 'FId'
    for o in reversed(ops):
        f = f'(FUn {o} {f})'
    return f


def vfun_tree(s, hole):
    "Schema over the element hole -> ('id',) | ('un', op, f) | ('bin', op, f, g)."
    if hole(s):
        return ('id',)
    if 'un' in s:
        return ('un', s['un'], vfun_tree(s['a'], hole))
    if 'bin' in s:
        return ('bin', s['bin'], vfun_tree(s['a'], hole), vfun_tree(s['b'], hole))
    raise Inexpressible(f'not an element function: {s}')


def vfun_coq(f) -> str:
    if f[0] == 'id':
        return 'FId'
    if f[0] == 'un':
        return f'(FUn {f[1]} {vfun_coq(f[2])})'
    return f'(FBin {f[1]} {vfun_coq(f[2])} {vfun_coq(f[3])})'


def outer_tree(ops):
    f = ('id',)
    for o in reversed(ops):
        f = ('un', o, f)
    return f


def qrule_struct(rule):
    """Structured form of a quantifier/modal rule:
    dict(is_q, univ, neg, d, tick, groups=[[cond]], problems=[...]) with
    cond = ('ex', [(vfun, d)]) | ('all', vfun, d) | ('gen', univ, vfun, outer vfun, d)."""
    kind = rule['kind']
    problems = []
    is_q = kind == 'quant'
    gen_name = rule['quantifier'] if is_q else rule['operator']
    univ = gen_name in ('Universal', 'Necessity')
    variants = {v['setup']: v['applied'] for v in rule['variants']}

    if is_q:
        def hole(s):
            return 'body' in s
    else:
        def hole(s):
            return s.get('opd') == 0

    def whole(n):
        ops, core = split_outer(n['s'])
        if is_q and 'q' in core:
            return ('gen', core['q'] == 'Universal', vfun_tree(core['a'], lambda s: s.get('body') == 'bvar'),
                    outer_tree(ops), n['d'])
        if not is_q and 'mod' in core:
            return ('gen', core['mod'] == 'Necessity', vfun_tree(core['a'], hole), outer_tree(ops), n['d'])
        raise Inexpressible(f"{rule['name']}: node is neither an instance nor a generalised sentence: {n}")

    groups = []
    if rule['ticking']:
        app = variants['empty' if is_q else 'noaccess']
        app2 = variants['consts' if is_q else 'access']
        if app != app2 and not is_q:
            problems.append('ticking modal rule behaves differently with/without a pre-existing access node')
        if len(app) != 1 or 'adds' not in app[0]:
            raise Inexpressible(f"{rule['name']}: expected one application, got {app}")
        for g in app[0]['adds']:
            ex, conds, acc_ok = [], [], False
            for n in g:
                if 'acc' in n:
                    if n['acc'] == ['same', 'new']:
                        acc_ok = True
                    else:
                        raise Inexpressible(f"{rule['name']}: unexpected access node {n}")
                    continue
                if 's' not in n:
                    raise Inexpressible(f"{rule['name']}: unexpected node {n}")
                if is_q:
                    if n.get('w') not in (None, 'same'):
                        raise Inexpressible(f"{rule['name']}: quantifier rule leaves its world: {n}")
                    if _mentions(n['s'], 'new'):
                        ex.append((vfun_tree(n['s'], lambda s: s.get('body') == 'new'), n['d']))
                    elif _mentions(n['s'], 'any'):
                        raise Inexpressible(f"{rule['name']}: ticking rule instantiates an existing constant")
                    else:
                        conds.append(whole(n))
                else:
                    if n.get('w') == 'new':
                        ex.append((vfun_tree(n['s'], hole), n['d']))
                    elif n.get('w') == 'same':
                        conds.append(whole(n))
                    else:
                        raise Inexpressible(f"{rule['name']}: node at unexpected world {n}")
            if ex:
                if not is_q and not acc_ok:
                    problems.append('new-world nodes without the access node from the principal world')
                conds.insert(0, ('ex', ex))
            elif acc_ok:
                problems.append('access node to a new world that carries no sentence')
            groups.append(conds)
    else:
        app = variants['consts' if is_q else 'access']
        if not is_q and variants['noaccess']:
            problems.append('per-accessible-world rule applied although the principal world accesses nothing')
        if not app or any('adds' not in a for a in app):
            raise Inexpressible(f"{rule['name']}: no application on the branch with a constant / access: {app}")
        a0 = app[0]
        if len(a0['adds']) != 1 or len(a0['adds'][0]) != 1:
            raise Inexpressible(f"{rule['name']}: re-applying rule adds more than one node: {a0['adds']}")
        n = a0['adds'][0][0]
        if is_q:
            if not _mentions(n['s'], 'any') or n.get('w') not in (None, 'same'):
                raise Inexpressible(f"{rule['name']}: instance does not use the existing constant: {n}")
            f = vfun_tree(n['s'], lambda s: s.get('body') == 'any')
            emp = variants['empty']
            if emp and 'adds' in emp[0]:
                n0 = emp[0]['adds'][0][0]
                if vfun_tree(n0['s'], lambda s: 'body' in s) != f or n0['d'] != n['d']:
                    problems.append('instance on a constant-free branch differs from the per-constant instance')
        else:
            if n.get('w') != 'acc' or a0.get('nodes') != 2:
                raise Inexpressible(f"{rule['name']}: instance is not at the accessible world: {n} {a0}")
            f = vfun_tree(n['s'], hole)
        groups.append([('all', f, n['d'])])
    return dict(is_q=is_q, univ=univ, neg=bool(rule['negated']), d=rule['designation'], tick=bool(rule['ticking']),
                groups=groups, problems=problems)


def cond_coq(c) -> str:
    if c[0] == 'ex':
        return 'CEx [' + '; '.join(f'({vfun_coq(f)}, {dval(d)})' for f, d in c[1]) + ']'
    if c[0] == 'all':
        return f'CAll {vfun_coq(c[1])} {dval(c[2])}'
    return f"CGen {str(c[1]).lower()} {vfun_coq(c[2])} {vfun_coq(c[3])} {dval(c[4])}"


def qrule(rule) -> tuple[str, bool, list[str]]:
    """Gallina `qrule`, domain flag, and structural problems (strings) for a quantifier/modal rule."""
    st = qrule_struct(rule)
    outer = '(FUn Negation FId)' if st['neg'] else 'FId'
    principal = f"CGen {str(st['univ']).lower()} FId {outer} {dval(st['d'])}"
    body = '; '.join('[' + '; '.join(cond_coq(c) for c in g) + ']' for g in st['groups'])
    return f'{{| q_principal := {principal}; q_groups := [{body}] |}}', st['is_q'], st['problems']


def _mentions(s, what) -> bool:
    if s.get('body') == what:
        return True
    return any(_mentions(s[k], what) for k in ('a', 'b') if isinstance(s.get(k), dict))


def expected_shapes(L: dict) -> list[tuple]:
    """(operator|quantifier, negated, designation) shapes the logic must have a rule for."""
    has_des = L['has_designation']
    ds = [True, False] if has_des else [None]
    shapes = []
    ops = [o for o in L['truth_functional_operators']]
    if L['modal']:
        ops += list(L['modal_operators'])
    for o in ops:
        for neg in (False, True):
            if o == 'Negation' and not neg:
                continue
            for d in ds:
                shapes.append(('op', o, neg, d))
    if L['quantified']:
        for q in ('Existential', 'Universal'):
            for neg in (False, True):
                for d in ds:
                    shapes.append(('q', q, neg, d))
    return shapes
