"""Writes /verif/MANIFEST.json from the table below and validates it."""
import json, subprocess, sys
from pathlib import Path
ROOT = Path(__file__).resolve().parent.parent

CHECKS = {p.stem: json.load(open(p)) for p in sorted((ROOT / 'tools' / 'manifest.d').glob('C*.json'))}

NOT_YET = {}

def main():
    props = [json.loads(l) for l in open(ROOT / 'properties.jsonl')]
    checks = []
    for p in props:
        c = CHECKS.get(p['id'])
        if not c:
            continue
        checks.append(dict(
            property_id=p['id'],
            quick_cmd=f"./check {p['id']} --tier quick",
            thorough_cmd=f"./check {p['id']} --tier thorough",
            evidence_file=f"/verif/evidence/{p['id']}.json",
            replay_cmd_template=f"./check {p['id']} --replay {{path}}",
            engine='coq-pt',
            level_claimed=dict(category=c.get('category', 'proof'), text=c['text'], design_ref=c['design_ref']),
            level_note=c['note'],
            technique=c['technique']))
    na = [dict(property_id=p['id'], reason=NOT_YET.get(p['id'], 'no check registered yet: model/theorems for this property are still being built (see DESIGN.md section 8 staging); not claimed'))
          for p in props if p['id'] not in CHECKS]
    man = dict(
        version=1,
        setup_cmd='./setup.sh',
        hooks=dict(
            guard='PYTABLEAUX_VERIF',
            enable='environment PYTABLEAUX_VERIF=1 (and PYTABLEAUX_VERIF_ORDER=<int> to vary set iteration order); pure Python, no build step',
            baseline_off_cmd='cd /repo && env -u PYTABLEAUX_VERIF -u PYTABLEAUX_VERIF_ORDER /venv/bin/python -m pytest -ra -q -p no:cacheprovider --timeout=900 --continue-on-collection-errors',
            source_commits=['a7da614'],
            add_only=True),
        engines=[dict(name='coq-pt', path='/verif/coq', serves_properties=sorted(CHECKS),
                      kind_free_text='Coq 8.16.1 generic theory (coq/theories, coq/Props) + per-run generated instance (coq/gen) + Python correspondence drivers (tools/)')],
        checks=checks,
        notes='See DESIGN.md. Known findings: known_findings.json. fix: commits in /repo: 41122ed 1152718 4f09b7e fc44bb3 581cf1c edf3d50 da4323a 38a335f 38e7edd 6f69098 8a08f42 08fe120 422cec3 a424a77 e09a8c5 (each with the pinned suite at its baseline).',
        not_applicable=na)
    (ROOT / 'MANIFEST.json').write_text(json.dumps(man, indent=1))
    try:
        import jsonschema
        jsonschema.validate(man, json.load(open('/root/.vp/MANIFEST.schema.json')))
        print('MANIFEST valid;', len(checks), 'checks')
    except ImportError:
        print('jsonschema not available; not validated')

if __name__ == '__main__':
    main()
